#!/bin/bash
# usage: try_mutant.sh <patch.diff> <prop> [tier] [more props...]
# applies the patch to /repo, runs the checks, and ALWAYS undoes the patch
P=$1; shift
TIER=quick
cd /repo || exit 2
if ! git diff --quiet; then echo "/repo has uncommitted changes, refusing"; exit 2; fi
git apply "$P" || { echo "patch does not apply"; exit 2; }
trap 'git -C /repo checkout -- . ' EXIT
cd /verif
for prop in "$@"; do
  if [ "$prop" = "thorough" ] || [ "$prop" = "quick" ]; then TIER=$prop; continue; fi
  /usr/bin/time -f "$prop %es" ./check $prop $TIER 2>&1 | grep -E "VIOLATION|INCONCLUSIVE|KNOWN|^\[|^    \[|s$" | cut -c1-400
done
