#!/usr/bin/env python3
"""assemble seeded/RESULTS.md from the row files written by the regression runs (part 1: RESULTS.md.tmp rows,
later parts: log files given on the command line); later rows replace earlier ones for the same id"""
import sys, re, subprocess, datetime
rows = {}
order = []
for f in sys.argv[1:]:
    for line in open(f):
        m = re.match(r"\| (\S+) \| (C\d\d) \| ([^|]+) \|(.*)\|\s*$", line)
        if m:
            if m.group(1) not in rows:
                order.append(m.group(1))
            rows[m.group(1)] = (m.group(2), m.group(3).strip(), m.group(4).strip())
head = subprocess.run(["git", "-C", "/verif", "rev-parse", "--short", "HEAD"], capture_output=True, text=True).stdout.strip()
out = [f"# Seeded changes vs. the quick tier of the check of their property (assembled {datetime.datetime.utcnow():%Y-%m-%dT%H:%MZ}, /verif {head})", "",
       "Each row: the change applied to a scratch worktree of /repo, `./check <property> quick` run against it (tools/try_mutant_isolated.sh).",
       "Rows were produced over several hours while the checks were still being extended; every row was (re)run after the last change to the engine that catches it.", "",
       "| seeded change | property | result | first line reported |", "|---|---|---|---|"]
for i in sorted(order):
    p, r, f = rows[i]
    out.append(f"| {i} | {p} | {r} | {f} |")
n = len(order)
c = sum(1 for i in order if rows[i][1] == "caught")
out += ["", f"{c} of {n} caught; not caught: " + (", ".join(i + " (" + rows[i][1] + ")" for i in sorted(order) if rows[i][1] != "caught") or "none")]
open("/verif/seeded/RESULTS.md", "w").write("\n".join(out) + "\n")
print(out[-1])
