#!/bin/bash
# Re-runs every seeded change against the quick check of the property it was written against
# (isolated copy, /repo untouched) and writes seeded/RESULTS.md.
OUT=/verif/seeded/RESULTS.md
echo "# Seeded changes vs. the quick tier of the check of their property ($(date -u +%FT%TZ), /verif $(git -C /verif rev-parse --short HEAD))" > $OUT.tmp
echo "" >> $OUT.tmp
echo "| seeded change | property | result | first line reported |" >> $OUT.tmp
echo "|---|---|---|---|" >> $OUT.tmp
for d in /verif/seeded/*/; do
  id=$(basename $d)
  [ -f $d/meta.json ] || continue
  prop=$(python3 -c "import json;print(json.load(open('$d/meta.json'))['breaks_property'])")
  log=$(/verif/tools/try_mutant_isolated.sh $d/patch.diff $prop 2>&1)
  if echo "$log" | grep -q "^VIOLATION"; then res="caught"; elif grep -q "NOT CAUGHT, deliberately" $d/meta.json; then res="not caught (deliberately, see meta.json)"; else res="MISSED"; echo "$log" | tail -15 > /tmp/run_seeded.$id.missed.log; fi
  first=$(echo "$log" | grep -A1 "^VIOLATION" | sed -n 2p | cut -c1-160 | tr '|' '/')
  echo "| $id | $prop | $res | $first |" >> $OUT.tmp
  echo "$id $prop $res"
done
mv $OUT.tmp $OUT
