#!/bin/bash
# Re-runs seeded changes against the quick check of the property they were written against (isolated copy of /verif
# pointed at a scratch worktree of /repo; /repo itself is untouched) and re-assembles seeded/RESULTS.md.
# usage: tools/run_seeded.sh            all of seeded/*/
#        tools/run_seeded.sh Q1 X       only the ids that start with one of the given prefixes
# Rows accumulate in seeded/RESULTS.rows (the newest row per id wins). ~3-4 min per change.
ROWS=/verif/seeded/RESULTS.rows
touch $ROWS
list=()
if [ $# -eq 0 ]; then list=(/verif/seeded/*/); else for p in "$@"; do list+=(/verif/seeded/$p*/); done; fi
for d in "${list[@]}"; do
  [ -f $d/meta.json ] || continue
  id=$(basename $d)
  prop=$(python3 -c "import json;print(json.load(open('$d/meta.json'))['breaks_property'])")
  log=$(/verif/tools/try_mutant_isolated.sh $d/patch.diff $prop 2>&1)
  if echo "$log" | grep -q "^VIOLATION"; then res="caught"; elif grep -q "NOT CAUGHT, deliberately" $d/meta.json; then res="not caught (deliberately, see meta.json)"; else res="MISSED"; fi
  first=$(echo "$log" | grep -A1 "^VIOLATION" | sed -n 2p | cut -c1-160 | tr '|' '/')
  echo "| $id | $prop | $res | $first |" >> $ROWS
  echo "$id $prop $res"
done
python3 /verif/tools/assemble_results.py $ROWS
