#!/usr/bin/env python3
"""store_mutant.py <worktree> <seeded-id> <property> <needs> <caught_by> [<validate-log>]"""
import sys, os, shutil, json, subprocess
wt, sid, prop, needs, caught = sys.argv[1:6]
vlog = sys.argv[6] if len(sys.argv) > 6 else None
d = os.path.join("/verif/seeded", sid)
os.makedirs(d, exist_ok=True)
shutil.copy(os.path.join(wt, "MUTANT.diff"), os.path.join(d, "patch.diff"))
shutil.copy(os.path.join(wt, "tests/mutant_demo.rs"), os.path.join(d, "demo.rs"))
if os.path.exists(os.path.join(wt, "MUTANT.md")):
    shutil.copy(os.path.join(wt, "MUTANT.md"), os.path.join(d, "notes.md"))
base = subprocess.run(["git", "-C", wt, "rev-parse", "--short", "HEAD"], capture_output=True, text=True).stdout.strip()
meta = {
    "id": sid, "breaks_property": prop, "base_commit": base,
    "needs_to_manifest": needs,
    "confirmed_by_me": {
        "how": "tools/validate_mutant.sh in the author's scratch worktree: existing suite (cargo test --offline --no-fail-fast) passes with the change; demo.rs (as tests/mutant_demo.rs) fails with the change and passes with the change reverted (`git apply -R MUTANT.diff`)",
        "log_tail": open(vlog).read()[-1500:] if vlog and os.path.exists(vlog) else None,
    },
    "checks_run_against_it": "tools/try_mutant.sh patch.diff <props> (git apply in /repo, ./check <prop> quick, git checkout -- .)",
    "caught_by": caught,
}
json.dump(meta, open(os.path.join(d, "meta.json"), "w"), indent=1)
print("stored", d)
