#!/bin/bash
# usage: try_mutant_isolated.sh <patch.diff> [quick|thorough] <prop>...
# Same as try_mutant.sh but does not touch /repo: a copy of /verif (own target dir) under /tmp/vtrial is pointed at a
# scratch worktree of /repo that carries the patch. Lets trials run while other checks use /repo.
# SLOT=<n> selects an independent copy so that two trials can run side by side.
P=$(readlink -f "$1"); shift
TIER=quick
T=/tmp/vtrial${SLOT:-}; R=/tmp/vtrial${SLOT:-}-repo
if [ ! -d $R ]; then git -C /repo worktree add --detach $R HEAD -q || exit 2; fi
git -C $R checkout -q --detach $(git -C /repo rev-parse HEAD) && git -C $R checkout -q -- . && git -C $R clean -fdq
git -C $R apply "$P" || { echo "patch does not apply"; exit 2; }
mkdir -p $T
rsync -a --delete --exclude target --exclude runs --exclude .git --exclude replays --exclude evidence /verif/ $T/
sed -i "s#path = \"/repo\"#path = \"$R\"#" $T/harness/Cargo.toml
mkdir -p $T/evidence $T/replays
cd $T
for prop in "$@"; do
  if [ "$prop" = "thorough" ] || [ "$prop" = "quick" ]; then TIER=$prop; continue; fi
  /usr/bin/time -f "$prop %es" ./check $prop $TIER 2>&1 | grep -E "VIOLATION|INCONCLUSIVE|KNOWN|^\[|^    \[|s$" | cut -c1-400
done
git -C $R checkout -q -- .
