#!/bin/bash
# usage: validate_mutant.sh <worktree-with-MUTANT.diff-and-tests/mutant_demo.rs>
# confirms: existing suite passes with the change; demo fails with it and passes without it.
# (uses git apply / apply -R, not git stash: stashes are shared between worktrees)
set -u
D=$1
cd "$D" || exit 2
export CARGO_NET_OFFLINE=true
git checkout -q -- src && git apply MUTANT.diff || { echo "MUTANT.diff does not apply"; exit 2; }
echo "== suite with mutant"
cargo test --offline --no-fail-fast 2>&1 | grep -E "^test result|FAILED|panicked|Running" | head -30
echo "== demo with mutant (expected to FAIL)"
timeout 900 cargo test --offline --test mutant_demo 2>&1 | grep -E "^test result|FAILED|panicked|test .* \.\.\." | head -12
git apply -R MUTANT.diff
echo "== demo without mutant (expected to PASS)"
timeout 900 cargo test --offline --test mutant_demo 2>&1 | grep -E "^test result|FAILED|panicked" | head -10
git apply MUTANT.diff
git diff --stat -- src | tail -1
