#!/bin/bash
# usage: validate_mutant.sh <worktree-with-mutant-applied>
# confirms: suite passes with the change; demo fails with it and passes without it
set -u
D=$1
cd "$D" || exit 2
export CARGO_NET_OFFLINE=true
echo "== suite with mutant"
cargo test --offline --no-fail-fast 2>&1 | grep -E "^test result|FAILED|panicked|Running" | head -30
echo "== demo with mutant (expected to FAIL)"
timeout 600 cargo test --offline --test mutant_demo 2>&1 | grep -E "^test result|FAILED|panicked|test .* \.\.\." | head -10
echo "rc_with=$?"
git stash push -q -- src
echo "== demo without mutant (expected to PASS)"
timeout 600 cargo test --offline --test mutant_demo 2>&1 | grep -E "^test result|FAILED|panicked" | head -10
git stash pop -q
git diff --stat -- src | tail -1
