//! Payload classes (one per size/alignment/drop-glue class that the channel
//! distinguishes) and the global ledger that audits births and drops.
//!
//! The ledger is keyed by *tag*, never by address, so it hides nothing from
//! LeakSanitizer / memcheck / Miri, and it uses `Relaxed` RMWs only so it adds
//! no happens-before edge that could mask a race.
use crate::rng::hash64;
use std::cell::Cell;
use std::sync::atomic::{AtomicU32, AtomicU64, Ordering::Relaxed};
use std::sync::OnceLock;
use std::time::Instant;

pub const FIRST_UNIQUE: u64 = 512;
pub const SLOT_Z0: u64 = 1;
pub const SLOT_ZA: u64 = 2;
pub const SLOT_S1: u64 = 256;

pub struct Ledger {
    pub n: usize,
    born: Box<[AtomicU32]>,
    dropped: Box<[AtomicU32]>,
    ctx: Box<[AtomicU32]>,
    when: Box<[AtomicU64]>,
    /// drops that found the slot not live (double drop) or an invalid value
    pub bad: AtomicU64,
    pub first_bad: AtomicU64,
    pub first_bad_kind: AtomicU32,
    hi: AtomicU64,
}

static LEDGER: OnceLock<Ledger> = OnceLock::new();
static EPOCH: OnceLock<Instant> = OnceLock::new();

thread_local! {
    /// id of the public call the current thread is inside (0 = none / harness)
    pub static CUR_OP: Cell<u32> = const { Cell::new(0) };
}
pub fn set_cur_op(v: u32) {
    CUR_OP.with(|c| c.set(v));
}
pub fn cur_op() -> u32 {
    CUR_OP.with(|c| c.get())
}

/// nanoseconds since process epoch, CLOCK_MONOTONIC
#[inline]
pub fn now() -> u64 {
    EPOCH.get_or_init(Instant::now).elapsed().as_nanos() as u64
}

fn mk32(n: usize) -> Box<[AtomicU32]> {
    (0..n).map(|_| AtomicU32::new(0)).collect()
}
fn mk64(n: usize) -> Box<[AtomicU64]> {
    (0..n).map(|_| AtomicU64::new(0)).collect()
}

pub fn init(n: usize) -> &'static Ledger {
    let _ = now();
    LEDGER.get_or_init(|| Ledger {
        n,
        born: mk32(n),
        dropped: mk32(n),
        ctx: mk32(n),
        when: mk64(n),
        bad: AtomicU64::new(0),
        first_bad: AtomicU64::new(0),
        first_bad_kind: AtomicU32::new(0),
        hi: AtomicU64::new(FIRST_UNIQUE),
    })
}
pub fn ledger() -> &'static Ledger {
    init(if cfg!(miri) { 1 << 11 } else { 1 << 16 })
}

pub const BAD_DOUBLE_DROP: u32 = 1;
pub const BAD_CORRUPT_DROP: u32 = 2;
pub const BAD_RANGE: u32 = 3;

impl Ledger {
    fn bad(&self, slot: u64, kind: u32) {
        if self.bad.fetch_add(1, Relaxed) == 0 {
            self.first_bad.store(slot, Relaxed);
            self.first_bad_kind.store(kind, Relaxed);
        }
    }
    #[inline]
    pub fn on_make(&self, slot: u64) {
        let s = slot as usize;
        if s >= self.n {
            panic!("ledger too small for tag {} (n={})", slot, self.n);
        }
        self.born[s].fetch_add(1, Relaxed);
        self.hi.fetch_max(slot + 1, Relaxed);
    }
    #[inline]
    pub fn on_drop(&self, slot: u64, valid: bool) {
        let s = slot as usize;
        if s >= self.n {
            self.bad(slot, BAD_RANGE);
            return;
        }
        if !valid {
            self.bad(slot, BAD_CORRUPT_DROP);
        }
        let d = self.dropped[s].fetch_add(1, Relaxed) + 1;
        // A slot shared by many values (the non-unique classes) is incremented by several threads: a plain relaxed
        // load of `born` may legally return a value older than increments that happened-before drops already
        // counted in `d` (seen under Miri's weak-memory emulation as a false "double drop"); a read-modify-write
        // reads the newest value in modification order. Unique slots are written once, before the value travels.
        let born = if slot < FIRST_UNIQUE { self.born[s].fetch_add(0, Relaxed) } else { self.born[s].load(Relaxed) };
        if d > born {
            self.bad(slot, BAD_DOUBLE_DROP);
        }
        self.ctx[s].store(cur_op(), Relaxed);
        self.when[s].store(now(), Relaxed);
    }
    pub fn born(&self, slot: u64) -> u32 {
        self.born[slot as usize].load(Relaxed)
    }
    pub fn dropped(&self, slot: u64) -> u32 {
        self.dropped[slot as usize].load(Relaxed)
    }
    pub fn drop_ctx(&self, slot: u64) -> u32 {
        self.ctx[slot as usize].load(Relaxed)
    }
    pub fn drop_when(&self, slot: u64) -> u64 {
        self.when[slot as usize].load(Relaxed)
    }
    pub fn hi(&self) -> u64 {
        self.hi.load(Relaxed)
    }
    pub fn bad_count(&self) -> u64 {
        self.bad.load(Relaxed)
    }
    pub fn bad_desc(&self) -> String {
        let k = match self.first_bad_kind.load(Relaxed) {
            BAD_DOUBLE_DROP => "double drop",
            BAD_CORRUPT_DROP => "drop of a corrupted value",
            BAD_RANGE => "drop of a value whose tag is out of range (corrupted)",
            _ => "?",
        };
        format!("{} of tag {} ({} bad drop events)", k, self.first_bad.load(Relaxed), self.bad_count())
    }
    /// Only at quiescence (all worker threads joined).
    pub fn reset(&self) {
        let hi = (self.hi.load(Relaxed) as usize).min(self.n);
        for s in 0..hi {
            self.born[s].store(0, Relaxed);
            self.dropped[s].store(0, Relaxed);
            self.ctx[s].store(0, Relaxed);
            self.when[s].store(0, Relaxed);
        }
        self.hi.store(FIRST_UNIQUE, Relaxed);
        self.bad.store(0, Relaxed);
        self.first_bad.store(0, Relaxed);
        self.first_bad_kind.store(0, Relaxed);
    }
    /// slots with born != dropped: (slot, born, dropped)
    pub fn unbalanced(&self) -> Vec<(u64, u32, u32)> {
        let hi = (self.hi.load(Relaxed) as usize).min(self.n);
        let mut v = Vec::new();
        for s in 0..hi {
            let b = self.born[s].load(Relaxed);
            let d = self.dropped[s].load(Relaxed);
            if b != d {
                v.push((s as u64, b, d));
            }
        }
        v
    }
    pub fn total_born(&self) -> u64 {
        let hi = (self.hi.load(Relaxed) as usize).min(self.n);
        (0..hi).map(|s| self.born[s].load(Relaxed) as u64).sum()
    }
}

/// A message type the harness can send: carries an identity (`tag`) and, where
/// the size allows, redundancy so that any bit damage is detectable.
pub trait Payload: Send + Sized + 'static {
    const NAME: &'static str;
    /// every value carries a distinct tag
    const UNIQUE: bool;
    /// has drop glue and is therefore tracked by the ledger (the `N*` classes are plain data:
    /// they exercise the `needs_drop::<T>() == false` branches of the channel)
    const DROPS: bool = true;
    /// tag-level bookkeeping (which value went where, who destroyed it) is possible
    const TRACKED: bool = Self::UNIQUE && Self::DROPS;
    /// `tag` must be >= FIRST_UNIQUE for unique classes; `pat` selects body bits.
    fn make(tag: u64, pat: u64) -> Self;
    /// ledger slot = identity
    fn tag(&self) -> u64;
    /// integrity (checksum over tag and body)
    fn ok(&self) -> bool;
    fn size() -> usize {
        std::mem::size_of::<Self>()
    }
}

macro_rules! ledger_drop {
    ($t:ty) => {
        impl Drop for $t {
            fn drop(&mut self) {
                ledger().on_drop(self.tag(), self.ok());
                drop_probe();
            }
        }
    };
}

// ---- drop probe ---------------------------------------------------------------
// In "probe" runs every payload destructor takes and releases the lock of the channel under test (through a
// closure that is not a handle). If the channel ever runs a destructor inside its own critical section the calling
// operation never returns and the stuck detector reports it. The probe adds acquire/release edges through the
// channel's own lock, so it is only switched on in a few native jobs, never under Miri / TSan.
static PROBE_WANTED: std::sync::atomic::AtomicBool = std::sync::atomic::AtomicBool::new(false);
static PROBE_ON: std::sync::atomic::AtomicBool = std::sync::atomic::AtomicBool::new(false);
static PROBE: std::sync::RwLock<Option<std::sync::Arc<dyn Fn() + Send + Sync>>> = std::sync::RwLock::new(None);
pub static PROBE_CALLS: AtomicU64 = AtomicU64::new(0);
pub fn want_drop_probe(on: bool) {
    PROBE_WANTED.store(on, Relaxed);
}
pub fn drop_probe_wanted() -> bool {
    PROBE_WANTED.load(Relaxed)
}
pub fn set_drop_probe(p: Option<Box<dyn Fn() + Send + Sync>>) {
    PROBE_ON.store(false, std::sync::atomic::Ordering::SeqCst);
    let new: Option<std::sync::Arc<dyn Fn() + Send + Sync>> = p.map(std::sync::Arc::from);
    let on = new.is_some();
    let old = {
        let mut g = PROBE.write().unwrap();
        std::mem::replace(&mut *g, new)
    };
    // the old closure may be the last owner of a channel: its buffered payloads are destroyed here, outside our lock
    drop(old);
    PROBE_ON.store(on, std::sync::atomic::Ordering::SeqCst);
}
#[inline]
pub fn drop_probe() {
    if !PROBE_ON.load(Relaxed) {
        return;
    }
    let p = PROBE.read().unwrap().clone();
    if let Some(p) = p {
        PROBE_CALLS.fetch_add(1, Relaxed);
        p();
    }
}

// ---- zero-sized ------------------------------------------------------------
pub struct Z0;
impl Payload for Z0 {
    const NAME: &'static str = "Z0";
    const UNIQUE: bool = false;
    fn make(_: u64, _: u64) -> Self {
        ledger().on_make(SLOT_Z0);
        Z0
    }
    fn tag(&self) -> u64 {
        SLOT_Z0
    }
    fn ok(&self) -> bool {
        true
    }
}
ledger_drop!(Z0);

#[repr(align(64))]
pub struct ZA;
impl Payload for ZA {
    const NAME: &'static str = "ZA";
    const UNIQUE: bool = false;
    fn make(_: u64, _: u64) -> Self {
        ledger().on_make(SLOT_ZA);
        ZA
    }
    fn tag(&self) -> u64 {
        SLOT_ZA
    }
    fn ok(&self) -> bool {
        // an over-aligned ZST must still be handed out at an aligned address
        (self as *const ZA as usize) % 64 == 0
    }
}
ledger_drop!(ZA);

// ---- smaller than a pointer --------------------------------------------------
pub struct S1(pub u8);
impl Payload for S1 {
    const NAME: &'static str = "S1";
    const UNIQUE: bool = false;
    fn make(tag: u64, _: u64) -> Self {
        let v = (tag % 256) as u8;
        ledger().on_make(SLOT_S1 + v as u64);
        S1(v)
    }
    fn tag(&self) -> u64 {
        SLOT_S1 + self.0 as u64
    }
    fn ok(&self) -> bool {
        true
    }
}
ledger_drop!(S1);

/// 4 bytes: 24-bit tag, 8-bit check
pub struct S4(pub u32);
impl Payload for S4 {
    const NAME: &'static str = "S4";
    const UNIQUE: bool = true;
    fn make(tag: u64, _: u64) -> Self {
        assert!(tag < (1 << 24));
        ledger().on_make(tag);
        S4((tag as u32) | (((hash64(tag) & 0xff) as u32) << 24))
    }
    fn tag(&self) -> u64 {
        (self.0 & 0xff_ffff) as u64
    }
    fn ok(&self) -> bool {
        (self.0 >> 24) as u64 == hash64(self.tag()) & 0xff
    }
}
ledger_drop!(S4);

// ---- pointer sized, droppable, with SPECIAL BIT PATTERNS: all zero (looks like a null pointer / an empty word),
// all ones, one. Not unique: three ledger slots, conservation by count.
pub const SLOT_P0: u64 = 3;
pub struct P0(pub usize);
impl Payload for P0 {
    const NAME: &'static str = "P0";
    const UNIQUE: bool = false;
    fn make(tag: u64, _: u64) -> Self {
        // half of the values are the all-zero word
        let (slot, v) = match tag % 4 {
            0 | 3 => (0, 0),
            1 => (1, usize::MAX),
            _ => (2, 1),
        };
        ledger().on_make(SLOT_P0 + slot);
        P0(v)
    }
    fn tag(&self) -> u64 {
        SLOT_P0
            + match self.0 {
                0 => 0,
                usize::MAX => 1,
                _ => 2,
            }
    }
    fn ok(&self) -> bool {
        matches!(self.0, 0 | 1 | usize::MAX)
    }
}
ledger_drop!(P0);

// ---- exactly pointer sized ---------------------------------------------------
/// 8 bytes: 40-bit tag, 24-bit check
pub struct P8(pub u64);
impl Payload for P8 {
    const NAME: &'static str = "P8";
    const UNIQUE: bool = true;
    fn make(tag: u64, _: u64) -> Self {
        ledger().on_make(tag);
        P8(tag | ((hash64(tag) & 0xff_ffff) << 40))
    }
    fn tag(&self) -> u64 {
        self.0 & 0xff_ffff_ffff
    }
    fn ok(&self) -> bool {
        (self.0 >> 40) == hash64(self.tag()) & 0xff_ffff
    }
}
ledger_drop!(P8);

/// pointer sized and heap owning: a duplicated / stale value is a double free
/// or dangling pointer that the sanitizers see
pub struct PB(pub Box<u64>);
impl Payload for PB {
    const NAME: &'static str = "PB";
    const UNIQUE: bool = true;
    fn make(tag: u64, _: u64) -> Self {
        ledger().on_make(tag);
        PB(Box::new(tag | ((hash64(tag) & 0xff_ffff) << 40)))
    }
    fn tag(&self) -> u64 {
        *self.0 & 0xff_ffff_ffff
    }
    fn ok(&self) -> bool {
        (*self.0 >> 40) == hash64(self.tag()) & 0xff_ffff
    }
}
ledger_drop!(PB);

// ---- larger than a pointer ----------------------------------------------------
pub struct L16 {
    pub tag: u64,
    pub sum: u64,
}
impl Payload for L16 {
    const NAME: &'static str = "L16";
    const UNIQUE: bool = true;
    fn make(tag: u64, pat: u64) -> Self {
        ledger().on_make(tag);
        let _ = pat;
        L16 { tag, sum: hash64(tag ^ 0x5555) }
    }
    fn tag(&self) -> u64 {
        self.tag
    }
    fn ok(&self) -> bool {
        self.sum == hash64(self.tag ^ 0x5555)
    }
}
ledger_drop!(L16);

/// 40 bytes with interior padding (after `b`) — `repr(C)` so the padding is
/// where we think it is
#[repr(C)]
pub struct L40 {
    pub flag: bool,
    pub b: u8,
    pub w: u32,
    pub tag: u64,
    pub body: [u64; 2],
    pub sum: u64,
}
impl L40 {
    fn calc(&self) -> u64 {
        let mut h = hash64(self.tag);
        h = hash64(h ^ self.body[0]);
        h = hash64(h ^ self.body[1]);
        h = hash64(h ^ self.w as u64 ^ ((self.b as u64) << 32) ^ ((self.flag as u64) << 40));
        h
    }
}
impl Payload for L40 {
    const NAME: &'static str = "L40";
    const UNIQUE: bool = true;
    fn make(tag: u64, pat: u64) -> Self {
        ledger().on_make(tag);
        let mut v = L40 {
            flag: pat & 1 == 1,
            b: (pat >> 8) as u8,
            w: (pat >> 16) as u32,
            tag,
            body: [pat, !pat],
            sum: 0,
        };
        v.sum = v.calc();
        v
    }
    fn tag(&self) -> u64 {
        self.tag
    }
    fn ok(&self) -> bool {
        self.sum == self.calc() && self.body[0] == !self.body[1]
    }
}
ledger_drop!(L40);

/// larger than a pointer and heap owning (Vec: 24 bytes)
pub struct LS(pub Vec<u64>);
impl Payload for LS {
    const NAME: &'static str = "LS";
    const UNIQUE: bool = true;
    fn make(tag: u64, pat: u64) -> Self {
        ledger().on_make(tag);
        LS(vec![tag, pat, !pat, hash64(tag ^ pat)])
    }
    fn tag(&self) -> u64 {
        self.0.first().copied().unwrap_or(u64::MAX)
    }
    fn ok(&self) -> bool {
        self.0.len() == 4 && self.0[1] == !self.0[2] && self.0[3] == hash64(self.0[0] ^ self.0[1])
    }
}
ledger_drop!(LS);

// ---- plain data without drop glue (not in the ledger) --------------------------------------------
pub struct N4(pub u32);
impl Payload for N4 {
    const NAME: &'static str = "N4";
    const UNIQUE: bool = true;
    const DROPS: bool = false;
    fn make(tag: u64, _: u64) -> Self {
        assert!(tag < (1 << 24));
        N4((tag as u32) | (((hash64(tag) & 0xff) as u32) << 24))
    }
    fn tag(&self) -> u64 {
        (self.0 & 0xff_ffff) as u64
    }
    fn ok(&self) -> bool {
        (self.0 >> 24) as u64 == hash64(self.tag()) & 0xff
    }
}
pub struct N8(pub u64);
impl Payload for N8 {
    const NAME: &'static str = "N8";
    const UNIQUE: bool = true;
    const DROPS: bool = false;
    fn make(tag: u64, _: u64) -> Self {
        N8(tag | ((hash64(tag) & 0xff_ffff) << 40))
    }
    fn tag(&self) -> u64 {
        self.0 & 0xff_ffff_ffff
    }
    fn ok(&self) -> bool {
        (self.0 >> 40) == hash64(self.tag()) & 0xff_ffff
    }
}
#[repr(C)]
pub struct N40 {
    pub flag: bool,
    pub w: u32,
    pub tag: u64,
    pub body: [u64; 2],
    pub sum: u64,
}
impl Payload for N40 {
    const NAME: &'static str = "N40";
    const UNIQUE: bool = true;
    const DROPS: bool = false;
    fn make(tag: u64, pat: u64) -> Self {
        N40 { flag: pat & 1 == 1, w: (pat >> 16) as u32, tag, body: [pat, !pat], sum: hash64(tag ^ pat) }
    }
    fn tag(&self) -> u64 {
        self.tag
    }
    fn ok(&self) -> bool {
        self.sum == hash64(self.tag ^ self.body[0]) && self.body[0] == !self.body[1]
    }
}

/// larger than a pointer AND over-aligned (32), with drop glue
#[repr(C, align(32))]
pub struct A32 {
    pub tag: u64,
    pub pat: u64,
    pub sum: u64,
}
impl Payload for A32 {
    const NAME: &'static str = "A32";
    const UNIQUE: bool = true;
    fn make(tag: u64, pat: u64) -> Self {
        ledger().on_make(tag);
        A32 { tag, pat, sum: hash64(tag ^ pat ^ 0x32) }
    }
    fn tag(&self) -> u64 {
        self.tag
    }
    fn ok(&self) -> bool {
        self.sum == hash64(self.tag ^ self.pat ^ 0x32) && (self as *const A32 as usize) % 32 == 0
    }
}
ledger_drop!(A32);

pub const CLASSES: [&str; 13] = ["Z0", "ZA", "S1", "S4", "P8", "PB", "L16", "L40", "LS", "N4", "N8", "N40", "A32"];

/// Runs `$f::<T>($args)` for the class named `$name`.
#[macro_export]
macro_rules! with_class {
    ($name:expr, $f:ident ( $($a:expr),* )) => {
        match $name {
            "Z0" => $f::<$crate::payload::Z0>($($a),*),
            "ZA" => $f::<$crate::payload::ZA>($($a),*),
            "S1" => $f::<$crate::payload::S1>($($a),*),
            "S4" => $f::<$crate::payload::S4>($($a),*),
            "P8" => $f::<$crate::payload::P8>($($a),*),
            "P0" => $f::<$crate::payload::P0>($($a),*),
            "PB" => $f::<$crate::payload::PB>($($a),*),
            "L16" => $f::<$crate::payload::L16>($($a),*),
            "L40" => $f::<$crate::payload::L40>($($a),*),
            "LS" => $f::<$crate::payload::LS>($($a),*),
            "N4" => $f::<$crate::payload::N4>($($a),*),
            "N8" => $f::<$crate::payload::N8>($($a),*),
            "N40" => $f::<$crate::payload::N40>($($a),*),
            "A32" => $f::<$crate::payload::A32>($($a),*),
            other => panic!("unknown payload class {}", other),
        }
    };
}

/// bit patterns used for bodies (C04): boundaries, walking bits, then random
pub fn pattern(i: u64) -> u64 {
    match i % 140 {
        0 => 0,
        1 => u64::MAX,
        k @ 2..=65 => 1u64 << (k - 2),
        k @ 66..=129 => !(1u64 << (k - 66)),
        _ => hash64(i),
    }
}
