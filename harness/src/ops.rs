//! Operation alphabet for the multi-threaded engines, its executor and the
//! per-thread recorder.  `t0` is taken immediately before the public call and
//! `t1` immediately after it returns, both from the same monotonic clock; no
//! shared counter is used, so recording adds no happens-before edge.
use crate::exec::*;
use crate::json::J;
use crate::model::Tag;
use crate::payload::{self, now, Payload};
use futures_core::Stream;
use kanal::*;
use std::future::Future;
use std::pin::Pin;
use std::task::{Context, Poll};
use std::time::Duration;

#[derive(Clone, Copy, Debug, PartialEq, Eq, Hash)]
pub enum Op {
    Send,
    SendTimeout(u32),
    SendOptTimeout(u32),
    TrySend,
    TrySendOpt,
    TrySendRt,
    TrySendOptRt,
    ASend,
    /// async send polled at most k times, then dropped if still pending
    ASendDrop(u8),
    Recv,
    RecvTimeout(u32),
    TryRecv,
    TryRecvRt,
    ARecv,
    ARecvDrop(u8),
    StreamNext,
    Drain,
    CloseS,
    CloseR,
    CloneS(bool),
    DropS,
    ConvS,
    CloneR(bool),
    DropR,
    ConvR,
    Len,
    IsEmpty,
    IsFull,
    SenderCount,
    ReceiverCount,
    IsClosed,
    IsDisconnectedS,
    IsDisconnectedR,
    IsTerminated,
}
impl Op {
    pub fn is_send(&self) -> bool {
        matches!(self, Op::Send | Op::SendTimeout(_) | Op::SendOptTimeout(_) | Op::TrySend | Op::TrySendOpt | Op::TrySendRt | Op::TrySendOptRt | Op::ASend | Op::ASendDrop(_))
    }
    pub fn is_recv(&self) -> bool {
        matches!(self, Op::Recv | Op::RecvTimeout(_) | Op::TryRecv | Op::TryRecvRt | Op::ARecv | Op::ARecvDrop(_) | Op::StreamNext | Op::Drain)
    }
    pub fn needs_sender(&self) -> bool {
        self.is_send() || matches!(self, Op::CloseS | Op::CloneS(_) | Op::DropS | Op::ConvS | Op::IsDisconnectedS)
    }
    pub fn needs_receiver(&self) -> bool {
        self.is_recv() || matches!(self, Op::CloseR | Op::CloneR(_) | Op::DropR | Op::ConvR | Op::IsDisconnectedR | Op::IsTerminated)
    }
    pub fn is_observer(&self) -> bool {
        matches!(self, Op::Len | Op::IsEmpty | Op::IsFull | Op::SenderCount | Op::ReceiverCount | Op::IsClosed | Op::IsTerminated | Op::IsDisconnectedS | Op::IsDisconnectedR)
    }
    pub fn may_block(&self) -> bool {
        matches!(self, Op::Send | Op::SendTimeout(_) | Op::SendOptTimeout(_) | Op::ASend | Op::ASendDrop(_) | Op::Recv | Op::RecvTimeout(_) | Op::ARecv | Op::ARecvDrop(_) | Op::StreamNext)
    }
    pub fn timeout_us(&self) -> Option<u32> {
        match self {
            Op::SendTimeout(d) | Op::SendOptTimeout(d) | Op::RecvTimeout(d) => Some(*d),
            _ => None,
        }
    }
    pub fn name(&self) -> String {
        let s = format!("{:?}", self);
        s.split('(').next().unwrap().to_string()
    }
}

#[derive(Clone, Debug, PartialEq, Eq, Hash)]
pub enum Res {
    Ok,
    Val(Tag),
    True,
    False,
    NoneV,
    Closed,
    SendClosed,
    RecvClosed,
    Timeout,
    Drained(Vec<Tag>),
    Num(u64),
    B(bool),
    /// future dropped while pending; for a receive future the consumed tag is
    /// filled in afterwards from the ledger (the documented caveat)
    Cancelled(Option<Tag>),
    Skip,
    /// a received value failed its integrity check
    Corrupt(Tag),
    /// drain_into broke its own contract (count / prefix)
    BadDrain(String),
    /// Option argument in the wrong state after the call
    BadOption(String),
    Panicked,
}

#[derive(Clone, Debug)]
pub struct Event {
    pub th: u16,
    pub idx: u32,
    pub op: Op,
    /// tag supplied by a send
    pub tag: Option<Tag>,
    pub t0: u64,
    pub t1: u64,
    pub res: Res,
    pub polls: u32,
    /// scripted scenarios only: a time at which the harness had confirmed that
    /// this operation's first (register / claim) step had already happened
    pub reg_t: Option<u64>,
}
impl Event {
    pub fn opid(&self) -> u32 {
        opid(self.th, self.idx)
    }
    pub fn to_json(&self) -> J {
        J::O(vec![
            ("th".into(), J::U(self.th as u64)),
            ("i".into(), J::U(self.idx as u64)),
            ("op".into(), J::s(format!("{:?}", self.op))),
            ("tag".into(), self.tag.map(J::U).unwrap_or(J::Null)),
            ("t0".into(), J::U(self.t0)),
            ("t1".into(), J::U(self.t1)),
            ("res".into(), J::s(format!("{:?}", self.res))),
        ])
    }
    pub fn short(&self) -> String {
        format!("T{}#{} {:?}{} -> {:?} [{}..{}]", self.th, self.idx, self.op, self.tag.map(|t| format!("({})", t)).unwrap_or_default(), self.res, self.t0, self.t1)
    }
}
pub fn opid(th: u16, idx: u32) -> u32 {
    ((th as u32 + 1) << 20) | (idx + 1)
}

struct NextFut<'a, S: ?Sized>(Pin<&'a mut S>);
impl<S: Stream + ?Sized> Future for NextFut<'_, S> {
    type Output = Option<S::Item>;
    fn poll(mut self: Pin<&mut Self>, cx: &mut Context<'_>) -> Poll<Self::Output> {
        self.0.as_mut().poll_next(cx)
    }
}

/// Everything one worker thread owns.
pub struct ThreadCtx<T: Payload> {
    pub th: u16,
    pub idx: u32,
    // NOTE field order: the stream borrows `stream_owner`, so it is declared (and dropped) first
    stream: Option<Pin<Box<ReceiveStream<'static, T>>>>,
    stream_owner: Option<Box<RH<T>>>,
    // scripted polling: a future this thread owns across several steps (declared before its owner handle)
    held_r: Option<(Pin<Box<ReceiveFuture<'static, T>>>, usize)>,
    held_r_owner: Option<Box<RH<T>>>,
    held_s: Option<(Pin<Box<SendFuture<'static, T>>>, usize)>,
    held_s_owner: Option<Box<SH<T>>>,
    // scripted polling of a stream owned across steps: (stream, index of the open wait's event if any)
    held_stream: Option<(Pin<Box<ReceiveStream<'static, T>>>, Option<usize>)>,
    held_stream_owner: Option<Box<RH<T>>>,
    pub last_waker_stream: usize,
    /// counting wakers for scripted polling; `last_waker` = index last supplied to the held future
    pub wakers: Vec<std::sync::Arc<WakeCell>>,
    pub last_waker_r: usize,
    pub last_waker_s: usize,
    pub senders: Vec<SH<T>>,
    pub receivers: Vec<RH<T>>,
    pub log: Vec<Event>,
    /// next tag to use and the end of this thread's private tag range
    pub next_tag: Tag,
    pub tag_end: Tag,
    pub pat: u64,
    /// values handed back / received are dropped by the harness right after the op
    pub status: Option<&'static crate::stuck::Slot>,
    /// never drop this thread's last handle of a side through DropS/DropR (handle-churn workloads)
    pub keep_one: bool,
}

// ---- threads that die by a panic ---------------------------------------------------------------------------
// A worker that panics drops its handles while unwinding (`std::thread::panicking()` is true then); its peers are meant
// to learn of its death through the disconnect. `die()` starts such an unwinding on purpose; the thread's `ThreadCtx`
// is dropped by it and lets its handles go one by one, recorded as ordinary `DropS`/`DropR` events, and leaves its
// log in `DEATH_LOGS`.
pub struct Died;
thread_local! {
    static DYING: std::cell::Cell<bool> = const { std::cell::Cell::new(false) };
}
pub static DEATH_LOGS: std::sync::Mutex<Vec<(u16, Vec<Event>)>> = std::sync::Mutex::new(Vec::new());
pub static DEATHS: std::sync::atomic::AtomicU64 = std::sync::atomic::AtomicU64::new(0);
pub fn die() -> ! {
    DYING.with(|d| d.set(true));
    std::panic::resume_unwind(Box::new(Died))
}
pub fn take_death_log(th: u16) -> Vec<Event> {
    let mut g = DEATH_LOGS.lock().unwrap();
    match g.iter().position(|(t, _)| *t == th) {
        Some(i) => g.swap_remove(i).1,
        None => vec![],
    }
}
impl<T: Payload> Drop for ThreadCtx<T> {
    fn drop(&mut self) {
        if DYING.with(|d| d.replace(false)) && std::thread::panicking() {
            DEATHS.fetch_add(1, std::sync::atomic::Ordering::Relaxed);
            self.finish();
            let log = std::mem::take(&mut self.log);
            DEATH_LOGS.lock().unwrap().push((self.th, log));
        }
    }
}

impl<T: Payload> ThreadCtx<T> {
    /// The duration handed to a timed call. A deadline of `LONG_US` or more stands for "cannot expire in this
    /// run"; those are drawn (by thread, position and the run's pattern seed) from a table of ways to say "practically
    /// forever": 4000 s, `Duration::MAX` (the idiom for "no limit", which `Instant` cannot represent), powers of two
    /// of seconds up to 2^63, values just above 2^64 ns, `u64::MAX` of every unit.
    fn dur(&self, us: u32) -> Duration {
        if us < crate::scn::LONG_US {
            return Duration::from_micros(us as u64);
        }
        let h = crate::rng::hash_mix(crate::rng::hash_mix(self.pat, self.th as u64), self.idx as u64);
        match h % 16 {
            0 | 1 | 2 => Duration::from_micros(us as u64),
            3 | 4 => Duration::MAX,
            5 => Duration::from_secs(1 << (32 + (h >> 8) % 32)),
            6 => Duration::from_secs(1 << 63),
            7 => Duration::from_secs(1 << 55),
            8 => Duration::from_nanos(u64::MAX) + Duration::from_nanos(1) + Duration::from_millis(30),
            9 => Duration::from_secs(18_446_744_074),
            10 => Duration::from_secs(u64::MAX),
            11 => Duration::from_millis(u64::MAX),
            12 => Duration::from_micros(u64::MAX),
            13 => Duration::from_nanos(u64::MAX),
            14 => Duration::from_secs(u32::MAX as u64 + 1 + (h >> 8) % 1000),
            _ => Duration::new(u64::MAX / (1 + (h >> 8) % 1000), 999_999_999),
        }
    }
    pub fn new(th: u16, tag_lo: Tag, tag_hi: Tag) -> Self {
        ThreadCtx { th, idx: 0, stream: None, stream_owner: None, held_r: None, held_r_owner: None, held_s: None, held_s_owner: None, held_stream: None, held_stream_owner: None, last_waker_stream: 0, wakers: (0..3).map(|i| WakeCell::new(100 + i, None)).collect(), last_waker_r: 0, last_waker_s: 0, senders: vec![], receivers: vec![], log: Vec::new(), next_tag: tag_lo, tag_end: tag_hi, pat: th as u64, status: None, keep_one: false }
    }
    fn mk(&mut self) -> (T, Tag) {
        assert!(self.next_tag < self.tag_end, "thread {} ran out of tags", self.th);
        let t = self.next_tag;
        self.next_tag += 1;
        let v = T::make(t, payload::pattern(self.pat.wrapping_mul(977).wrapping_add(t)));
        let tag = v.tag();
        (v, tag)
    }
    fn recvd(v: T) -> Res {
        let t = v.tag();
        let ok = v.ok();
        drop(v);
        if ok {
            Res::Val(t)
        } else {
            Res::Corrupt(t)
        }
    }
    /// Sets the pattern seed of this thread; half of the seeds make the thread's counting wakers a *family*
    /// (one data pointer, different vtables) instead of independent `Arc` wakers.
    pub fn set_pat(&mut self, pat: u64) {
        self.pat = pat;
        if crate::rng::hash_mix(pat, 0x77616b65) & 1 == 1 && !cfg!(miri) {
            self.wakers = WakeCell::family(100, 3);
        }
    }
    pub fn has_for(&self, op: Op) -> bool {
        if !op.needs_sender() && !op.needs_receiver() && self.senders.is_empty() && self.receivers.is_empty() && self.stream_owner.is_none() {
            return false;
        }
        (!op.needs_sender() || !self.senders.is_empty()) && (!op.needs_receiver() || !self.receivers.is_empty() || (matches!(op, Op::StreamNext) && self.stream.is_some()))
    }

    /// Executes one operation on this thread's most recent handle of the
    /// needed side, records it, and returns the index of the event in `log`
    /// (None if skipped for lack of a handle).
    pub fn exec(&mut self, op: Op) -> Option<usize> {
        if !self.has_for(op) {
            return None;
        }
        if self.keep_one && ((op == Op::DropS && self.senders.len() <= 1) || (op == Op::DropR && self.receivers.len() <= 1)) {
            return None;
        }
        // a handle that other threads use through a shared reference is neither dropped nor converted
        if (matches!(op, Op::DropS | Op::ConvS) && self.senders.last().map_or(false, |h| h.is_borrowed())) || (matches!(op, Op::DropR | Op::ConvR) && self.receivers.last().map_or(false, |h| h.is_borrowed())) {
            return None;
        }
        if self.keep_one && ((matches!(op, Op::CloneS(_)) && self.senders.len() >= 6) || (matches!(op, Op::CloneR(_)) && self.receivers.len() >= 6)) {
            return None;
        }
        let idx = self.idx;
        self.idx += 1;
        let mut tag = None;
        let mut polls = 0u32;
        let id = opid(self.th, idx);
        let mut made: Option<T> = None;
        if op.is_send() {
            let (v, t) = self.mk();
            made = Some(v);
            tag = Some(t);
        }
        if let Some(s) = self.status {
            s.enter(op.may_block(), id);
        }
        payload::set_cur_op(id);
        crate::fp::reg_reset();
        let t0 = now();
        let res = self.run(op, &mut made, &mut polls);
        let t1 = now();
        payload::set_cur_op(0);
        // only for operations that can sit in the wait list and were not cancelled by their own deadline before
        let reg_t = if op.may_block() { crate::fp::reg_take() } else { None };
        if let Some(s) = self.status {
            s.leave();
        }
        debug_assert!(made.is_none());
        self.log.push(Event { th: self.th, idx, op, tag, t0, t1, res, polls, reg_t });
        Some(self.log.len() - 1)
    }

    /// Executes a short script of NON-BLOCKING calls back to back: everything the recorder needs (payloads, ids) is
    /// prepared beforehand and written down afterwards, so that between two channel calls there is one clock read
    /// and nothing else. Multi-step windows inside the channel that are only tens of nanoseconds wide (an observer
    /// that looks at the channel twice) need two calls of a peer to land inside them; with the ordinary per-call
    /// bookkeeping (~150 ns) between them they never do. Each call is still its own event: [t_i, t_{i+1}].
    pub fn exec_tight(&mut self, ops: &[Op]) {
        if ops.iter().any(|o| o.may_block()) || ops.len() > 8 || self.keep_one {
            for o in ops {
                self.exec(*o);
            }
            return;
        }
        let n = ops.len();
        let mut made: Vec<Option<T>> = Vec::with_capacity(n);
        let mut tags: Vec<Option<Tag>> = Vec::with_capacity(n);
        let mut idxs: Vec<u32> = Vec::with_capacity(n);
        for op in ops {
            idxs.push(self.idx);
            self.idx += 1;
            if op.is_send() {
                let (v, t) = self.mk();
                made.push(Some(v));
                tags.push(Some(t));
            } else {
                made.push(None);
                tags.push(None);
            }
        }
        let mut ts: Vec<u64> = Vec::with_capacity(n + 1);
        let mut rs: Vec<Option<Res>> = Vec::with_capacity(n);
        let mut polls = 0u32;
        if let Some(s) = self.status {
            s.enter(false, opid(self.th, idxs[0]));
        }
        for i in 0..n {
            ts.push(now());
            payload::set_cur_op(opid(self.th, idxs[i]));
            rs.push(if self.has_for(ops[i]) { Some(self.run(ops[i], &mut made[i], &mut polls)) } else { None });
        }
        ts.push(now());
        payload::set_cur_op(0);
        if let Some(s) = self.status {
            s.leave();
        }
        for i in 0..n {
            match rs[i].take() {
                Some(res) => self.log.push(Event { th: self.th, idx: idxs[i], op: ops[i], tag: tags[i], t0: ts[i], t1: ts[i + 1], res, polls: 0, reg_t: None }),
                None => {
                    // skipped for lack of a handle: the prepared value was never given to the channel
                    drop(made[i].take());
                }
            }
        }
    }

    /// Calls one observer over and over with nothing but two clock reads between calls, until `done()` says that
    /// the other threads are finished (plus a few more calls), and records each maximal run of equal answers as ONE
    /// event spanning the run (weaker than the single observations, hence never a false alarm).
    pub fn exec_spin(&mut self, op: Op, done: &dyn Fn() -> bool) {
        if !op.is_observer() || !self.has_for(op) {
            return;
        }
        let mut cur: Option<Event> = None;
        let mut none: Option<T> = None;
        let mut polls = 0u32;
        let mut tail = 0u32;
        let mut calls = 0u64;
        loop {
            let t0 = now();
            let res = self.run(op, &mut none, &mut polls);
            let t1 = now();
            calls += 1;
            match &mut cur {
                Some(e) if e.res == res => e.t1 = t1,
                _ => {
                    if let Some(e) = cur.take() {
                        self.log.push(e);
                    }
                    let idx = self.idx;
                    self.idx += 1;
                    cur = Some(Event { th: self.th, idx, op, tag: None, t0, t1, res, polls: 0, reg_t: None });
                }
            }
            if calls & 7 == 0 || tail > 0 {
                if tail > 0 || done() {
                    tail += 1;
                    if tail > 16 {
                        break;
                    }
                }
                if calls > 2_000_000 || self.log.len() > 4000 {
                    break;
                }
            }
        }
        if let Some(e) = cur.take() {
            self.log.push(e);
        }
    }

    fn run(&mut self, op: Op, made: &mut Option<T>, polls: &mut u32) -> Res {
        fn se(e: SendError) -> Res {
            match e {
                SendError::Closed => Res::Closed,
                SendError::ReceiveClosed => Res::RecvClosed,
            }
        }
        fn set(e: SendErrorTimeout) -> Res {
            match e {
                SendErrorTimeout::Closed => Res::Closed,
                SendErrorTimeout::ReceiveClosed => Res::RecvClosed,
                SendErrorTimeout::Timeout => Res::Timeout,
            }
        }
        fn re(e: ReceiveError) -> Res {
            match e {
                ReceiveError::Closed => Res::Closed,
                ReceiveError::SendClosed => Res::SendClosed,
            }
        }
        fn ret(e: ReceiveErrorTimeout) -> Res {
            match e {
                ReceiveErrorTimeout::Closed => Res::Closed,
                ReceiveErrorTimeout::SendClosed => Res::SendClosed,
                ReceiveErrorTimeout::Timeout => Res::Timeout,
            }
        }
        fn b(x: Result<bool, SendError>) -> Res {
            match x {
                Ok(true) => Res::True,
                Ok(false) => Res::False,
                Err(e) => se(e),
            }
        }
        fn o<T: Payload>(x: Result<Option<T>, ReceiveError>) -> Res {
            match x {
                Ok(Some(v)) => ThreadCtx::<T>::recvd(v),
                Ok(None) => Res::NoneV,
                Err(e) => re(e),
            }
        }
        /// Option post-condition: Some exactly on failure
        fn optcheck<T: Payload>(r: Res, opt: &mut Option<T>, tag: Tag) -> Res {
            let success = matches!(r, Res::Ok | Res::True);
            match opt.take() {
                Some(v) => {
                    let t = v.tag();
                    let ok = v.ok();
                    drop(v);
                    if success {
                        Res::BadOption(format!("reported success ({:?}) but left Some(tag {}) in the Option", r, t))
                    } else if t != tag || !ok {
                        Res::BadOption(format!("handed back a different/corrupted value (tag {} ok={}) for tag {}", t, ok, tag))
                    } else {
                        r
                    }
                }
                None => {
                    if success {
                        r
                    } else {
                        Res::BadOption(format!("reported failure ({:?}) but took the value (Option is None)", r))
                    }
                }
            }
        }
        match op {
            Op::Send => {
                let h = self.senders.last().unwrap();
                match h.sy().send(made.take().unwrap()) {
                    Ok(()) => Res::Ok,
                    Err(e) => se(e),
                }
            }
            Op::SendTimeout(us) => {
                let h = self.senders.last().unwrap();
                match h.sy().send_timeout(made.take().unwrap(), self.dur(us)) {
                    Ok(()) => Res::Ok,
                    Err(e) => set(e),
                }
            }
            Op::SendOptTimeout(us) => {
                let h = self.senders.last().unwrap();
                let v = made.take().unwrap();
                let tag = v.tag();
                let mut opt = Some(v);
                let r = match h.sy().send_option_timeout(&mut opt, self.dur(us)) {
                    Ok(()) => Res::Ok,
                    Err(e) => set(e),
                };
                optcheck(r, &mut opt, tag)
            }
            Op::TrySend => {
                let h = self.senders.last().unwrap();
                let v = made.take().unwrap();
                b(if h.is_async() { h.asy().try_send(v) } else { h.sy().try_send(v) })
            }
            Op::TrySendRt => {
                let h = self.senders.last().unwrap();
                let v = made.take().unwrap();
                b(if h.is_async() { h.asy().try_send_realtime(v) } else { h.sy().try_send_realtime(v) })
            }
            Op::TrySendOpt | Op::TrySendOptRt => {
                let h = self.senders.last().unwrap();
                let v = made.take().unwrap();
                let tag = v.tag();
                let mut opt = Some(v);
                let r = match (op, h.is_async()) {
                    (Op::TrySendOpt, false) => h.sy().try_send_option(&mut opt),
                    (Op::TrySendOpt, true) => h.asy().try_send_option(&mut opt),
                    (_, false) => h.sy().try_send_option_realtime(&mut opt),
                    (_, true) => h.asy().try_send_option_realtime(&mut opt),
                };
                optcheck(b(r), &mut opt, tag)
            }
            Op::ASend => {
                let h = self.senders.last().unwrap();
                let fut = h.asy().send(made.take().unwrap());
                let mut fut = std::pin::pin!(fut);
                let (r, p) = block_on(fut.as_mut());
                *polls = p;
                match r {
                    Ok(()) => Res::Ok,
                    Err(e) => se(e),
                }
            }
            Op::ASendDrop(k) => {
                let h = self.senders.last().unwrap();
                let mut fut = Box::pin(h.asy().send(made.take().unwrap()));
                // a different waker on every poll: an executor may legally do that
                let ws = [waker_of(&self.wakers[0]), waker_of(&self.wakers[1])];
                let mut out = Res::Cancelled(None);
                for i in 0..k {
                    *polls += 1;
                    if let Poll::Ready(r) = poll_once(fut.as_mut(), &ws[i as usize % 2]) {
                        out = match r {
                            Ok(()) => Res::Ok,
                            Err(e) => se(e),
                        };
                        break;
                    }
                    if i + 1 < k {
                        std::thread::yield_now();
                    }
                }
                drop(fut);
                out
            }
            Op::Recv => match self.receivers.last().unwrap().sy().recv() {
                Ok(v) => Self::recvd(v),
                Err(e) => re(e),
            },
            Op::RecvTimeout(us) => match self.receivers.last().unwrap().sy().recv_timeout(self.dur(us)) {
                Ok(v) => Self::recvd(v),
                Err(e) => ret(e),
            },
            Op::TryRecv => {
                let h = self.receivers.last().unwrap();
                o(if h.is_async() { h.asy().try_recv() } else { h.sy().try_recv() })
            }
            Op::TryRecvRt => {
                let h = self.receivers.last().unwrap();
                o(if h.is_async() { h.asy().try_recv_realtime() } else { h.sy().try_recv_realtime() })
            }
            Op::ARecv => {
                let h = self.receivers.last().unwrap();
                let fut = h.asy().recv();
                let mut fut = std::pin::pin!(fut);
                let (r, p) = block_on(fut.as_mut());
                *polls = p;
                match r {
                    Ok(v) => Self::recvd(v),
                    Err(e) => re(e),
                }
            }
            Op::ARecvDrop(k) => {
                let h = self.receivers.last().unwrap();
                let mut fut = Box::pin(h.asy().recv());
                let ws = [waker_of(&self.wakers[0]), waker_of(&self.wakers[1])];
                let mut out = Res::Cancelled(None);
                for i in 0..k {
                    *polls += 1;
                    if let Poll::Ready(r) = poll_once(fut.as_mut(), &ws[i as usize % 2]) {
                        out = match r {
                            Ok(v) => Self::recvd(v),
                            Err(e) => re(e),
                        };
                        break;
                    }
                    if i + 1 < k {
                        std::thread::yield_now();
                    }
                }
                drop(fut);
                out
            }
            Op::StreamNext => {
                if self.stream.is_none() {
                    // dedicate this thread's most recent receiver handle to the stream for the rest of the run
                    let h = Box::new(self.receivers.pop().unwrap());
                    let a: &'static AsyncReceiver<T> = unsafe { &*(h.asy() as *const AsyncReceiver<T>) };
                    self.stream = Some(Box::pin(a.stream()));
                    self.stream_owner = Some(h);
                }
                let s = self.stream.as_mut().unwrap();
                let nf = NextFut(s.as_mut());
                let mut nf = std::pin::pin!(nf);
                let (r, p) = block_on(nf.as_mut());
                *polls = p;
                match r {
                    Some(v) => Self::recvd(v),
                    None => Res::NoneV,
                }
            }
            Op::Drain => {
                let h = self.receivers.last().unwrap();
                // previous contents: two sentinels from this thread's own tag range, with a little spare room
                let (s1, t1) = {
                    let t = self.next_tag;
                    self.next_tag += 1;
                    let v = T::make(t, 0);
                    let tg = v.tag();
                    (v, tg)
                };
                // spare room for 0, 1 or 2 more elements: drain_into has to grow the vector in most calls
                let mut vec: Vec<T> = Vec::with_capacity(1 + (self.idx as usize % 3));
                vec.push(s1);
                let r = if h.is_async() { h.asy().drain_into(&mut vec) } else { h.sy().drain_into(&mut vec) };
                let tags: Vec<Tag> = vec.iter().map(|v| v.tag()).collect();
                let bad: Vec<Tag> = vec.iter().filter(|v| !v.ok()).map(|v| v.tag()).collect();
                drop(vec);
                if tags.first() != Some(&t1) {
                    return Res::BadDrain(format!("previous contents [{}] changed: vector now starts {:?}", t1, tags.first()));
                }
                if let Some(t) = bad.first() {
                    return Res::Corrupt(*t);
                }
                match r {
                    Ok(n) => {
                        if n != tags.len() - 1 {
                            Res::BadDrain(format!("returned {} but appended {}", n, tags.len() - 1))
                        } else {
                            Res::Drained(tags[1..].to_vec())
                        }
                    }
                    Err(e) => {
                        if tags.len() != 1 {
                            Res::BadDrain(format!("failed with {:?} but appended {} values", e, tags.len() - 1))
                        } else {
                            re(e)
                        }
                    }
                }
            }
            Op::CloseS => {
                let h = self.senders.last().unwrap();
                match if h.is_async() { h.asy().close() } else { h.sy().close() } {
                    Ok(()) => Res::Ok,
                    Err(_) => Res::Closed,
                }
            }
            Op::CloseR => {
                let h = self.receivers.last().unwrap();
                match if h.is_async() { h.asy().close() } else { h.sy().close() } {
                    Ok(()) => Res::Ok,
                    Err(_) => Res::Closed,
                }
            }
            Op::CloneS(fl) => {
                let n = self.senders.last().unwrap().clone_as(fl);
                self.senders.push(n);
                Res::Ok
            }
            Op::CloneR(fl) => {
                let n = self.receivers.last().unwrap().clone_as(fl);
                self.receivers.push(n);
                Res::Ok
            }
            Op::DropS => {
                let h = self.senders.pop().unwrap();
                drop(h);
                Res::Ok
            }
            Op::DropR => {
                let h = self.receivers.pop().unwrap();
                drop(h);
                Res::Ok
            }
            Op::ConvS => {
                let h = self.senders.pop().unwrap();
                self.senders.push(h.convert());
                Res::Ok
            }
            Op::ConvR => {
                let h = self.receivers.pop().unwrap();
                self.receivers.push(h.convert());
                Res::Ok
            }
            Op::Len | Op::IsEmpty | Op::IsFull | Op::SenderCount | Op::ReceiverCount | Op::IsClosed => {
                macro_rules! obs {
                    ($h:expr) => {
                        match op {
                            Op::Len => Res::Num($h.len() as u64),
                            Op::IsEmpty => Res::B($h.is_empty()),
                            Op::IsFull => Res::B($h.is_full()),
                            Op::SenderCount => Res::Num($h.sender_count() as u64),
                            Op::ReceiverCount => Res::Num($h.receiver_count() as u64),
                            _ => Res::B($h.is_closed()),
                        }
                    };
                }
                if let Some(h) = self.senders.last() {
                    if h.is_async() {
                        obs!(h.asy())
                    } else {
                        obs!(h.sy())
                    }
                } else if let Some(h) = self.receivers.last() {
                    if h.is_async() {
                        obs!(h.asy())
                    } else {
                        obs!(h.sy())
                    }
                } else if let Some(h) = &self.stream_owner {
                    obs!(h.sy())
                } else {
                    Res::Skip
                }
            }
            Op::IsDisconnectedS => {
                let h = self.senders.last().unwrap();
                Res::B(if h.is_async() { h.asy().is_disconnected() } else { h.sy().is_disconnected() })
            }
            Op::IsDisconnectedR => {
                let h = self.receivers.last().unwrap();
                Res::B(if h.is_async() { h.asy().is_disconnected() } else { h.sy().is_disconnected() })
            }
            Op::IsTerminated => {
                let h = self.receivers.last().unwrap();
                Res::B(if h.is_async() { h.asy().is_terminated() } else { h.sy().is_terminated() })
            }
        }
    }

    // ---- scripted polling of a future owned across steps ---------------------------------
    // The whole life of the future is ONE recorded event, shaped like
    // `ARecvDrop` / `ASendDrop` (t0 = before the first poll, t1 = after the
    // poll that returned Ready, or after the drop).
    /// creates a receive future on this thread's most recent receiver and polls it once with waker `w`
    pub fn rfut_start(&mut self, w: usize) -> Poll<()> {
        assert!(self.held_r.is_none());
        let h = Box::new(self.receivers.pop().expect("receiver"));
        let a: &'static AsyncReceiver<T> = unsafe { &*(h.asy() as *const AsyncReceiver<T>) };
        let fut = Box::pin(a.recv());
        self.held_r_owner = Some(h);
        let idx = self.idx;
        self.idx += 1;
        self.log.push(Event { th: self.th, idx, op: Op::ARecvDrop(200), tag: None, t0: now(), t1: 0, res: Res::Cancelled(None), polls: 0, reg_t: None });
        self.held_r = Some((fut, self.log.len() - 1));
        self.rfut_poll(w)
    }
    /// (re-)polls the held receive future with waker `w`; on Ready the event is completed
    pub fn rfut_poll(&mut self, w: usize) -> Poll<()> {
        let (fut, k) = self.held_r.as_mut().expect("held receive future");
        let k = *k;
        let wk = waker_of(&self.wakers[w]);
        self.last_waker_r = w;
        payload::set_cur_op(self.log[k].opid());
        let r = poll_once(fut.as_mut(), &wk);
        self.log[k].polls += 1;
        let out = match r {
            Poll::Pending => Poll::Pending,
            Poll::Ready(r) => {
                self.log[k].res = match r {
                    Ok(v) => Self::recvd(v),
                    Err(ReceiveError::Closed) => Res::Closed,
                    Err(ReceiveError::SendClosed) => Res::SendClosed,
                };
                self.log[k].t1 = now();
                Poll::Ready(())
            }
        };
        payload::set_cur_op(0);
        if out.is_ready() {
            self.held_r = None;
            self.receivers.push(*self.held_r_owner.take().unwrap());
        }
        out
    }
    /// drops the held receive future (cancellation); the event ends as `Cancelled`
    pub fn rfut_drop(&mut self) {
        let (fut, k) = self.held_r.take().expect("held receive future");
        payload::set_cur_op(self.log[k].opid());
        if let Some(s) = self.status {
            s.enter(true, self.log[k].opid());
        }
        drop(fut);
        if let Some(s) = self.status {
            s.leave();
        }
        payload::set_cur_op(0);
        self.log[k].t1 = now();
        self.receivers.push(*self.held_r_owner.take().unwrap());
    }
    pub fn sfut_start(&mut self, w: usize) -> Poll<()> {
        assert!(self.held_s.is_none());
        let h = Box::new(self.senders.pop().expect("sender"));
        let a: &'static AsyncSender<T> = unsafe { &*(h.asy() as *const AsyncSender<T>) };
        let (v, tag) = self.mk();
        let fut = Box::pin(a.send(v));
        self.held_s_owner = Some(h);
        let idx = self.idx;
        self.idx += 1;
        self.log.push(Event { th: self.th, idx, op: Op::ASendDrop(200), tag: Some(tag), t0: now(), t1: 0, res: Res::Cancelled(None), polls: 0, reg_t: None });
        self.held_s = Some((fut, self.log.len() - 1));
        self.sfut_poll(w)
    }
    pub fn sfut_poll(&mut self, w: usize) -> Poll<()> {
        let (fut, k) = self.held_s.as_mut().expect("held send future");
        let k = *k;
        let wk = waker_of(&self.wakers[w]);
        self.last_waker_s = w;
        payload::set_cur_op(self.log[k].opid());
        let r = poll_once(fut.as_mut(), &wk);
        self.log[k].polls += 1;
        let out = match r {
            Poll::Pending => Poll::Pending,
            Poll::Ready(r) => {
                self.log[k].res = match r {
                    Ok(()) => Res::Ok,
                    Err(SendError::Closed) => Res::Closed,
                    Err(SendError::ReceiveClosed) => Res::RecvClosed,
                };
                self.log[k].t1 = now();
                Poll::Ready(())
            }
        };
        payload::set_cur_op(0);
        if out.is_ready() {
            self.held_s = None;
            self.senders.push(*self.held_s_owner.take().unwrap());
        }
        out
    }
    pub fn sfut_drop(&mut self) {
        let (fut, k) = self.held_s.take().expect("held send future");
        payload::set_cur_op(self.log[k].opid());
        if let Some(s) = self.status {
            s.enter(true, self.log[k].opid());
        }
        drop(fut);
        if let Some(s) = self.status {
            s.leave();
        }
        payload::set_cur_op(0);
        self.log[k].t1 = now();
        self.senders.push(*self.held_s_owner.take().unwrap());
    }
    /// Scripted stream: every wait of the stream (from the poll that starts it to the poll that returns
    /// an item / the end, or to the drop of the stream) is ONE recorded event: `StreamNext` when it
    /// completed, `ARecvDrop(200)`/Cancelled when the stream was dropped while that wait was pending.
    /// Returns Ready(Some(tag)) for an item, Ready(None) for the end of the stream.
    pub fn sstream_poll(&mut self, w: usize) -> Poll<Option<Tag>> {
        if self.held_stream.is_none() {
            let h = Box::new(self.receivers.pop().expect("receiver"));
            let a: &'static AsyncReceiver<T> = unsafe { &*(h.asy() as *const AsyncReceiver<T>) };
            self.held_stream = Some((Box::pin(a.stream()), None));
            self.held_stream_owner = Some(h);
        }
        if self.held_stream.as_ref().unwrap().1.is_none() {
            let idx = self.idx;
            self.idx += 1;
            self.log.push(Event { th: self.th, idx, op: Op::StreamNext, tag: None, t0: now(), t1: 0, res: Res::Cancelled(None), polls: 0, reg_t: None });
            self.held_stream.as_mut().unwrap().1 = Some(self.log.len() - 1);
        }
        let (st, k) = self.held_stream.as_mut().unwrap();
        let k = k.unwrap();
        let wk = waker_of(&self.wakers[w]);
        self.last_waker_stream = w;
        payload::set_cur_op(self.log[k].opid());
        let mut cx = Context::from_waker(&wk);
        let r = st.as_mut().poll_next(&mut cx);
        self.log[k].polls += 1;
        let out = match r {
            Poll::Pending => Poll::Pending,
            Poll::Ready(x) => {
                let (res, ret) = match x {
                    Some(v) => {
                        let r = Self::recvd(v);
                        let t = match &r {
                            Res::Val(t) | Res::Corrupt(t) => *t,
                            _ => 0,
                        };
                        (r, Some(t))
                    }
                    None => (Res::NoneV, None),
                };
                self.log[k].res = res;
                self.log[k].t1 = now();
                Poll::Ready(ret)
            }
        };
        payload::set_cur_op(0);
        if out.is_ready() {
            self.held_stream.as_mut().unwrap().1 = None;
        }
        out
    }
    pub fn has_open_stream_wait(&self) -> bool {
        self.held_stream.as_ref().map_or(false, |s| s.1.is_some())
    }
    pub fn sstream_drop(&mut self) {
        if let Some((st, k)) = self.held_stream.take() {
            if let Some(k) = k {
                payload::set_cur_op(self.log[k].opid());
                drop(st);
                payload::set_cur_op(0);
                self.log[k].op = Op::ARecvDrop(200);
                self.log[k].t1 = now();
            } else {
                drop(st);
            }
            self.receivers.push(*self.held_stream_owner.take().unwrap());
        }
    }
    pub fn has_held_r(&self) -> bool {
        self.held_r.is_some()
    }
    pub fn has_held_s(&self) -> bool {
        self.held_s.is_some()
    }
    pub fn last_event(&mut self) -> &mut Event {
        self.log.last_mut().unwrap()
    }

    /// Epilogue: drop the stream and every handle this thread still owns, each
    /// as its own recorded event (so the handle ledger is complete).
    pub fn finish(&mut self) {
        self.keep_one = false;
        self.sstream_drop();
        if self.held_r.is_some() {
            self.rfut_drop();
        }
        if self.held_s.is_some() {
            self.sfut_drop();
        }
        if let Some(s) = self.stream.take() {
            // dropping a stream whose future is idle touches nothing observable; not an event
            drop(s);
        }
        if let Some(h) = self.stream_owner.take() {
            self.receivers.push(*h);
        }
        // shared references are simply let go (not a handle event)
        self.senders.retain(|h| !h.is_borrowed());
        self.receivers.retain(|h| !h.is_borrowed());
        while !self.senders.is_empty() {
            self.exec(Op::DropS);
        }
        while !self.receivers.is_empty() {
            self.exec(Op::DropR);
        }
    }
}
