//! Scripted-scenario framework (engine E3): deterministic state construction
//! (block these waiters, in this order), scripted rendezvous at failpoints, a
//! main actor plus worker threads; the resulting complete history is judged by
//! the same oracles as the free-running engine (ledger, n·log n oracles,
//! linearizability — here with the scripted registration order pinned through
//! `Event::reg_t`), plus scenario-specific expectations.
use crate::exec::*;
use crate::fp;
use crate::lin::{Lin, LinResult};
use crate::model::RefChan;
use crate::ops::*;
use crate::oracles::{self, Hist, Obs};
use crate::payload::{self, ledger, now, Payload};
use crate::stuck;
use std::thread::JoinHandle;
use std::time::{Duration, Instant};

pub static TRACE: std::sync::atomic::AtomicBool = std::sync::atomic::AtomicBool::new(false);
/// last few script steps (kept under Miri / --trace so that a hung case can say where it hangs)
pub static LAST: std::sync::Mutex<Vec<String>> = std::sync::Mutex::new(Vec::new());
macro_rules! tr {
    ($($a:tt)*) => {
        if cfg!(miri) || TRACE.load(std::sync::atomic::Ordering::Relaxed) {
            let s = format!($($a)*);
            if TRACE.load(std::sync::atomic::Ordering::Relaxed) {
                eprintln!("{}", s);
            }
            if let Ok(mut l) = LAST.lock() {
                if l.len() > 40 {
                    l.remove(0);
                }
                l.push(s);
            }
        }
    };
}
/// bumped by every step / wait-loop iteration of the main actor: lets the process watchdog tell "main is waiting
/// for something, actively" from "main is wedged" (e.g. on a channel lock that is never released again)
pub static MAIN_BEAT: std::sync::atomic::AtomicU64 = std::sync::atomic::AtomicU64::new(0);
pub const MAIN_ROLE: u32 = 20;
pub const MAIN_SLOT: usize = 40;
/// "never" for timed waiters that are expected to be completed by a peer
pub const LONG_US: u32 = 4_000_000_000;

pub enum Outcome {
    Held,
    Violated(Vec<(String, String)>),
    Inconclusive(String),
}

struct Worker<T: Payload> {
    jh: Option<JoinHandle<ThreadCtx<T>>>,
    ctx: Option<ThreadCtx<T>>,
    #[allow(dead_code)]
    slot: usize,
    /// (index of the event in the worker's log, time) registration confirmations
    regs: Vec<(usize, u64)>,
}

pub struct Scn<T: Payload> {
    pub cap: Option<usize>,
    pub main: ThreadCtx<T>,
    workers: Vec<Worker<T>>,
    pub viols: Vec<(String, String)>,
    pub inconclusive: Option<String>,
    main_regs: Vec<(usize, u64)>,
    s0: u32,
    r0: u32,
    pub grace: Duration,
    /// histories longer than this are judged by the n log n oracles only
    pub lin_max_events: usize,
    t_start: Instant,
    pub hits0: [u64; kanal::verif::N_POINTS],
    /// handles that main and one or more workers use through shared references (`spawn_shared`); boxed so that
    /// they never move while a reference is out
    shared_s: Vec<Box<SH<T>>>,
    shared_r: Vec<Box<RH<T>>>,
}

#[derive(Clone, Copy, PartialEq, Debug)]
pub enum Side {
    S,
    R,
    Both,
}

impl<T: Payload> Scn<T> {
    pub fn new(cap: Option<usize>, async_ctor: bool, seed: u64) -> Self {
        let l = ledger();
        l.reset();
        stuck::reset_all();
        fp::reset_gates();
        fp::trace_reset();
        fp::set_role(MAIN_ROLE);
        let (s, r) = new_chan::<T>(cap, async_ctor);
        let span = ((l.n as u64 - payload::FIRST_UNIQUE) / 16).min(4096);
        let mut main = ThreadCtx::<T>::new(0, payload::FIRST_UNIQUE, payload::FIRST_UNIQUE + span);
        main.set_pat(seed);
        main.senders.push(s);
        main.receivers.push(r);
        let slot = stuck::slot(MAIN_SLOT);
        slot.begin_thread();
        main.status = Some(slot);
        Scn { cap, main, workers: vec![], viols: vec![], inconclusive: None, main_regs: vec![], s0: 1, r0: 1, grace: Duration::from_secs(if cfg!(miri) { 10_000_000 } else { 20 }), lin_max_events: 80, t_start: Instant::now(), hits0: fp::hits(), shared_s: vec![], shared_r: vec![] }
    }
    pub fn hits(&self) -> [u64; kanal::verif::N_POINTS] {
        fp::hits_delta(&self.hits0)
    }
    pub fn n_workers(&self) -> usize {
        self.workers.len()
    }
    pub fn role_of(&self, w: usize) -> u32 {
        w as u32 + 1
    }
    pub fn fail(&mut self, prop: &str, msg: String) {
        self.viols.push((prop.to_string(), msg));
    }
    pub fn expect(&mut self, cond: bool, prop: &str, msg: impl FnOnce() -> String) {
        if !cond {
            let m = msg();
            self.fail(prop, m);
        }
    }
    pub fn waiters(&self) -> usize {
        if let Some(h) = self.main.senders.first() {
            h.sy().verif_waiters().0
        } else if let Some(h) = self.main.receivers.first() {
            h.sy().verif_waiters().0
        } else {
            panic!("main has no handle left to look at the wait list")
        }
    }

    /// Spawns a worker that owns clones (made by main, recorded) of the
    /// requested side(s) in the requested flavour and executes `ops` in order.
    /// Its handles come back with it and are dropped by `finish`.
    pub fn spawn(&mut self, side: Side, asyncf: bool, ops: Vec<Op>) -> usize {
        self.spawn_gated(side, asyncf, ops, None)
    }
    /// like `spawn`, but the worker does not start its ops before `go` is set
    pub fn spawn_gated(&mut self, side: Side, asyncf: bool, ops: Vec<Op>, go: Option<std::sync::Arc<std::sync::atomic::AtomicBool>>) -> usize {
        let w = self.workers.len();
        let l = ledger();
        let span = ((l.n as u64 - payload::FIRST_UNIQUE) / 16).min(4096);
        let lo = payload::FIRST_UNIQUE + (w as u64 + 1) * span;
        let mut ctx = ThreadCtx::<T>::new(w as u16 + 1, lo, lo + span);
        ctx.set_pat(self.main.pat ^ (w as u64 + 1) << 12);
        if side != Side::R {
            self.main.exec(Op::CloneS(asyncf)).expect("main has a sender to clone");
            ctx.senders.push(self.main.senders.pop().unwrap());
        }
        if side != Side::S {
            self.main.exec(Op::CloneR(asyncf)).expect("main has a receiver to clone");
            ctx.receivers.push(self.main.receivers.pop().unwrap());
        }
        let role = self.role_of(w);
        let jh = std::thread::Builder::new()
            .stack_size(256 * 1024)
            .spawn(move || {
                let slot = stuck::slot(w);
                slot.begin_thread();
                ctx.status = Some(slot);
                fp::set_role(role);
                if let Some(g) = go {
                    while !g.load(std::sync::atomic::Ordering::Acquire) {
                        std::thread::yield_now();
                    }
                }
                for op in ops {
                    tr!("  worker {} exec {:?}", w, op);
                    ctx.exec(op);
                    tr!("  worker {} done {:?}", w, ctx.log.last().map(|e| e.res.clone()));
                }
                slot.finish();
                ctx
            })
            .unwrap();
        self.workers.push(Worker { jh: Some(jh), ctx: None, slot: w, regs: vec![] });
        w
    }

    /// Like `spawn`, but the worker does not get a clone: it uses main's most recent handle of the side through a
    /// shared reference (`&Sender` is `Sync`; scoped threads sharing one un-cloned handle are common). The number
    /// of handles does not change; main keeps using the same handle as well, but no longer drops or converts it
    /// before the end of the scenario.
    pub fn spawn_shared(&mut self, side: Side, ops: Vec<Op>) -> usize {
        let w = self.workers.len();
        let l = ledger();
        let span = ((l.n as u64 - payload::FIRST_UNIQUE) / 16).min(4096);
        let lo = payload::FIRST_UNIQUE + (w as u64 + 1) * span;
        let mut ctx = ThreadCtx::<T>::new(w as u16 + 1, lo, lo + span);
        ctx.set_pat(self.main.pat ^ (w as u64 + 1) << 12);
        if side != Side::R {
            let h = self.main.senders.pop().expect("main has a sender to share");
            let p: *const SH<T> = match h {
                SH::B(p) => p,
                real => {
                    let b = Box::new(real);
                    let p: *const SH<T> = &*b;
                    self.shared_s.push(b);
                    p
                }
            };
            self.main.senders.push(SH::B(p));
            ctx.senders.push(SH::B(p));
        }
        if side != Side::S {
            let h = self.main.receivers.pop().expect("main has a receiver to share");
            let p: *const RH<T> = match h {
                RH::B(p) => p,
                real => {
                    let b = Box::new(real);
                    let p: *const RH<T> = &*b;
                    self.shared_r.push(b);
                    p
                }
            };
            self.main.receivers.push(RH::B(p));
            ctx.receivers.push(RH::B(p));
        }
        let role = self.role_of(w);
        let jh = std::thread::Builder::new()
            .stack_size(256 * 1024)
            .spawn(move || {
                let slot = stuck::slot(w);
                slot.begin_thread();
                ctx.status = Some(slot);
                fp::set_role(role);
                for op in ops {
                    ctx.exec(op);
                }
                slot.finish();
                ctx
            })
            .unwrap();
        self.workers.push(Worker { jh: Some(jh), ctx: None, slot: w, regs: vec![] });
        w
    }
    /// every worker has been joined: main gets its shared handles back as ordinary ones (and drops them, recorded,
    /// in `ThreadCtx::finish`)
    fn unshare(&mut self) {
        for h in self.main.senders.iter_mut() {
            if let SH::B(p) = h {
                if let Some(i) = self.shared_s.iter().position(|b| std::ptr::eq(&**b, *p)) {
                    *h = *self.shared_s.swap_remove(i);
                }
            }
        }
        for h in self.main.receivers.iter_mut() {
            if let RH::B(p) = h {
                if let Some(i) = self.shared_r.iter().position(|b| std::ptr::eq(&**b, *p)) {
                    *h = *self.shared_r.swap_remove(i);
                }
            }
        }
    }

    fn pause(n: &mut u32) {
        MAIN_BEAT.fetch_add(1, std::sync::atomic::Ordering::Relaxed);
        *n += 1;
        if *n < 100 || cfg!(miri) {
            std::thread::yield_now();
        } else {
            std::thread::sleep(Duration::from_micros(50));
        }
    }

    /// Waits until the wait list holds `n` entries (or the worker finished) and
    /// pins "worker w's `k`-th op had registered by now" for the linearizability check.
    pub fn wait_registered(&mut self, w: usize, k: usize, n: usize) -> bool {
        tr!("wait_registered w={} n={}", w, n);
        let t0 = Instant::now();
        let mut spins = 0;
        loop {
            if self.waiters() == n {
                self.workers[w].regs.push((k, now()));
                return true;
            }
            if self.workers[w].jh.as_ref().map_or(true, |j| j.is_finished()) {
                return false;
            }
            if t0.elapsed() > self.grace {
                self.inconclusive = Some(format!("worker {} did not register in the wait list within {:?} (expected {} entries, saw {})", w, self.grace, n, self.waiters()));
                return false;
            }
            Self::pause(&mut spins);
        }
    }
    /// main's own held future registered (it is in the wait list because poll returned Pending)
    pub fn pin_main_reg(&mut self) {
        let k = self.main.log.len() - 1;
        self.main_regs.push((k, now()));
    }
    /// pins "worker w's op k has taken its first step" (it is held at a failpoint that lies after that step)
    pub fn pin_reg(&mut self, w: usize, k: usize) {
        self.workers[w].regs.push((k, now()));
    }

    /// waits until failpoint `point` has been passed `at_least` times (by worker `w`: gives up, without a
    /// verdict, if that worker returns first)
    pub fn wait_hits(&mut self, w: usize, point: u32, at_least: u64) -> bool {
        tr!("wait_hits w={} {} >= {}", w, kanal::verif::POINT_NAMES[point as usize], at_least);
        let t0 = Instant::now();
        let mut spins = 0;
        while self.hits()[point as usize] < at_least {
            if self.worker_finished(w) || t0.elapsed() > self.grace {
                if self.hits()[point as usize] >= at_least {
                    return true;
                }
                self.inconclusive = Some(format!("failpoint {} was not reached {} time(s) (scenario state not constructed)", kanal::verif::POINT_NAMES[point as usize], at_least));
                return false;
            }
            Self::pause(&mut spins);
        }
        true
    }
    pub fn wait_arrived(&mut self, w: usize, point: u32) -> bool {
        tr!("wait_arrived w={} {}", w, kanal::verif::POINT_NAMES[point as usize]);
        let r = self.role_of(w);
        let t0 = Instant::now();
        let mut spins = 0;
        loop {
            if fp::is_arrived(r, point) {
                return true;
            }
            // not a verdict: the worker's call simply did not go through this point (e.g. the deadline had
            // already passed before it registered) or did not get there in time
            if self.worker_finished(w) || t0.elapsed() > self.grace {
                fp::disarm(r, point);
                if fp::is_arrived(r, point) {
                    return true;
                }
                self.inconclusive = Some(format!("worker {} did not pass failpoint {} (scenario state not constructed)", w, kanal::verif::POINT_NAMES[point as usize]));
                return false;
            }
            Self::pause(&mut spins);
        }
    }
    pub fn arm(&self, w: usize, point: u32) {
        fp::arm(self.role_of(w), point)
    }
    pub fn release(&self, w: usize, point: u32) {
        tr!("release w={} {}", w, kanal::verif::POINT_NAMES[point as usize]);
        fp::release(self.role_of(w), point)
    }
    pub fn worker_finished(&self, w: usize) -> bool {
        self.workers[w].ctx.is_some() || self.workers[w].jh.as_ref().map_or(true, |j| j.is_finished())
    }
    pub fn worker_thread(&self, w: usize) -> Option<std::thread::Thread> {
        self.workers[w].jh.as_ref().map(|j| j.thread().clone())
    }

    /// Joins worker `w`; a worker that stays inside a blocking call although
    /// nothing it waits for is outstanding is a C06 violation (stuck detector).
    pub fn join(&mut self, w: usize) -> bool {
        tr!("join w={}", w);
        if self.workers[w].ctx.is_some() {
            return true;
        }
        let jh = match self.workers[w].jh.take() {
            Some(j) => j,
            None => return false, // already found stuck
        };
        let t0 = Instant::now();
        let mut spins = 0;
        while !jh.is_finished() {
            if t0.elapsed() > self.grace {
                self.fail("C06", format!("worker {} is still inside its blocking channel call {:?} after every operation that should have completed it has returned", w, self.grace));
                // cannot join a stuck thread
                std::mem::forget(jh);
                return false;
            }
            Self::pause(&mut spins);
        }
        match jh.join() {
            Ok(ctx) => {
                self.workers[w].ctx = Some(ctx);
                true
            }
            Err(e) => {
                let msg = e.downcast_ref::<String>().cloned().or_else(|| e.downcast_ref::<&str>().map(|s| s.to_string())).unwrap_or_default();
                self.fail("C18", format!("worker {} panicked: {}", w, msg));
                false
            }
        }
    }
    pub fn worker_result(&self, w: usize, k: usize) -> Option<Res> {
        self.workers[w].ctx.as_ref().and_then(|c| c.log.get(k).map(|e| e.res.clone()))
    }
    pub fn main_result(&self) -> Res {
        self.main.log.last().unwrap().res.clone()
    }

    /// Joins everything, drops every handle (workers' first, then main's), and
    /// judges the complete history.
    pub fn mexec(&mut self, op: Op) {
        MAIN_BEAT.fetch_add(1, std::sync::atomic::Ordering::Relaxed);
        tr!("main exec {:?}", op);
        self.main.exec(op);
        tr!("main done {:?}", self.main.log.last().map(|e| e.res.clone()));
    }
    pub fn finish(mut self, lin_budget: u64, obs: &mut Obs, samples: &mut Vec<Vec<String>>, lin_states: &mut u64) -> Outcome {
        fp::reset_gates();
        let n = self.workers.len();
        // a scenario that bailed out early (state could not be constructed) may leave workers legitimately
        // blocked: release them the way a program would, by closing the channel. A worker that is stuck because
        // of a lost wake-up is not in the wait list any more and stays stuck, so this masks nothing.
        if (0..n).any(|w| !self.worker_finished(w)) && self.viols.is_empty() {
            if !self.main.senders.is_empty() {
                self.mexec(Op::CloseS);
            } else if !self.main.receivers.is_empty() {
                self.mexec(Op::CloseR);
            }
        }
        let mut stuck_any = false;
        for w in 0..n {
            if !self.join(w) {
                stuck_any = true;
            }
        }
        if stuck_any || self.viols.iter().any(|v| v.0 == "C06") {
            // threads may still touch the channel: do not run more code on it
            let v = std::mem::take(&mut self.viols);
            let mut dump: Vec<String> = vec!["(workers are stuck: their logs cannot be collected; main actor's log follows)".into()];
            dump.extend(self.main.log.iter().map(|e| e.short()));
            samples.insert(0, dump);
            std::mem::forget(self);
            return Outcome::Violated(v);
        }
        self.unshare();
        let mut events: Vec<Event> = Vec::new();
        for w in 0..n {
            let mut ctx = self.workers[w].ctx.take().unwrap();
            ctx.status = self.main.status;
            ctx.finish();
            for (k, t) in &self.workers[w].regs {
                if let Some(e) = ctx.log.get_mut(*k) {
                    e.reg_t = Some(e.reg_t.map_or(*t, |x| x.min(*t)));
                }
            }
            events.append(&mut ctx.log);
        }
        self.main.finish();
        // every handle is gone: let the drop probe (if any) go as well, so that the channel is freed before the
        // ledger is read
        payload::set_drop_probe(None);
        for (k, t) in &self.main_regs {
            self.main.log[*k].reg_t = Some(*t);
        }
        events.append(&mut self.main.log);
        if T::TRACKED {
            oracles::resolve_consumed(&mut events, ledger());
        }
        let mut viols = std::mem::take(&mut self.viols);
        let h = Hist { ev: &events, cap: self.cap, s0: self.s0, r0: self.r0, unique: T::TRACKED };
        for v in oracles::check_all(&h, ledger(), obs) {
            viols.push((v.prop.to_string(), v.msg));
        }
        if viols.is_empty() && events.len() <= self.lin_max_events {
            let mut m = RefChan::new(self.cap);
            m.sc = self.s0;
            m.rc = self.r0;
            let mut lin = Lin::new(&events, lin_budget, T::TRACKED);
            match lin.check(m) {
                LinResult::Ok { states } => *lin_states += states,
                LinResult::Inconclusive { states } => {
                    *lin_states += states;
                    if self.inconclusive.is_none() {
                        self.inconclusive = Some("linearizability search budget exhausted".into());
                    }
                }
                LinResult::Violation { states, deepest } => {
                    *lin_states += states;
                    viols.push((
                        "C03".into(),
                        format!(
                            "no atomic-channel interleaving consistent with the scripted order explains the results ({} states; longest explainable prefix {:?})",
                            states,
                            deepest.iter().map(|i| format!("T{}#{}", events[*i].th, events[*i].idx)).collect::<Vec<_>>()
                        ),
                    ));
                }
            }
        }
        let mut idx: Vec<usize> = (0..events.len()).collect();
        idx.sort_by_key(|i| events[*i].t0);
        let dump: Vec<String> = idx.iter().map(|i| format!("{}{}", events[*i].short(), events[*i].reg_t.map(|t| format!(" reg<={}", t)).unwrap_or_default())).collect();
        if !viols.is_empty() {
            samples.insert(0, dump);
            return Outcome::Violated(viols);
        }
        if samples.len() < 3 {
            samples.push(dump);
        }
        let _ = self.t_start;
        match self.inconclusive {
            Some(s) => Outcome::Inconclusive(s),
            None => Outcome::Held,
        }
    }
}

/// Releases gate (role, point) from a helper thread once `cond` holds or after `max`.
pub fn release_when(role: u32, point: u32, max: Duration, cond: impl Fn() -> bool + Send + 'static) -> JoinHandle<bool> {
    std::thread::spawn(move || {
        let t0 = Instant::now();
        let mut n = 0u32;
        let mut met = false;
        loop {
            if cond() {
                met = true;
                break;
            }
            if t0.elapsed() > max {
                break;
            }
            n += 1;
            if n < 100 || cfg!(miri) {
                std::thread::yield_now();
            } else {
                std::thread::sleep(Duration::from_micros(50));
            }
        }
        fp::release(role, point);
        met
    })
}
