//! ThreadSanitizer does not model `fence(Acquire)`; kanal's waiters use
//! `load(Relaxed); fence(Acquire)`.  Behind kanal's `after_acquire_fence` hook
//! we tell TSan about the acquire that the fence performs on that atomic.
extern "C" {
    fn __tsan_acquire(addr: *mut core::ffi::c_void);
}
fn hook(addr: *const u8) {
    unsafe { __tsan_acquire(addr as *mut core::ffi::c_void) }
}
pub fn install() {
    kanal::verif::set_fence_hook(Some(hook));
}
