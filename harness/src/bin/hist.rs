//! E2 `hist`: free-running multi-threaded workloads with recording.
//!  * `--mode short`: seeded random small programs (2-4 threads x 1-5 ops over
//!    the whole API), each executed many times under random failpoint delays;
//!    every execution's history is checked for linearizability against
//!    `RefChan` and by the n·log n oracles.
//!  * `--mode long`: producer/consumer stress histories checked by the
//!    n·log n oracles (conservation, FIFO, capacity, close, disconnect, counts,
//!    deadlines) and the ledger.
//! Liveness is structural (every worker drops its handles at the end; a thread
//! that holds both sides never issues an unbounded blocking call), so a run
//! that stops making progress is a C06 violation found by the stuck detector.
use kverif::exec::*;
use kverif::json::J;
use kverif::lin::{Lin, LinResult};
use kverif::model::RefChan;
use kverif::ops::*;
use kverif::oracles::{self, Hist, Obs, Viol};
use kverif::payload::{self, ledger, Payload};
use kverif::rng::{hash_mix, Rng};
use kverif::stuck::{self, JoinErr};
use kverif::{fp, with_class};
use std::collections::{HashMap, HashSet};
use std::sync::atomic::{AtomicBool, Ordering};
use std::sync::Arc;
use std::time::Duration;

#[derive(Clone, Debug)]
struct ThreadPlan {
    sender: Option<bool>,   // Some(async?) if it starts with a sender handle
    receiver: Option<bool>, // likewise
    ops: Vec<Op>,
    /// long mode: keep cycling through `ops` until an end-of-channel result (consumers) / for `reps` rounds
    reps: u32,
    until_end: bool,
    /// observer thread: keeps cycling through its (observer) calls until every other thread is done
    spin_obs: bool,
    /// the script is run back to back (`ThreadCtx::exec_tight`)
    tight: bool,
    /// the thread ends by a panic: its handles are dropped while it unwinds
    dies: bool,
}
#[derive(Clone, Debug)]
struct Program {
    cap: Option<usize>,
    class: &'static str,
    async_ctor: bool,
    threads: Vec<ThreadPlan>,
    delay_permille: u32,
}

const UNIQUE_CLASSES: [&str; 9] = ["P8", "PB", "L40", "LS", "S4", "L16", "N8", "N40", "A32"];
const ALL_CLASSES: [&str; 14] = ["P8", "PB", "L40", "LS", "S4", "L16", "S1", "Z0", "ZA", "N4", "N8", "N40", "A32", "P0"];

/// observer-heavy short programs: one or two threads each run a short script of state-changing calls while one or
/// two threads that hold only ONE side call the observers back to back (30-40 calls). An observer whose answer is put
/// together from two looks at the channel (or is simply wrong in a transient state) contradicts the answers around
/// it; the linearizability check over the whole history decides.
fn gen_obs(rng: &mut Rng, miri: bool, classes: &[&'static str]) -> Program {
    let cap = *rng.pick(&[Some(1), Some(2), None, Some(0), Some(3)]);
    let class = *rng.pick(classes);
    let mut threads = Vec::new();
    let scripts_s: [&[Op]; 8] = [
        &[Op::TrySend, Op::DropS],
        &[Op::Send, Op::DropS],
        &[Op::TrySend, Op::TrySend, Op::DropS],
        &[Op::CloneS(false), Op::TrySendRt, Op::DropS, Op::DropS],
        &[Op::TrySend, Op::CloseS],
        &[Op::ASendDrop(1), Op::ConvS, Op::DropS],
        &[Op::TrySendOpt, Op::CloneS(true), Op::DropS, Op::TrySend, Op::DropS],
        &[Op::SendTimeout(50), Op::DropS],
    ];
    let scripts_r: [&[Op]; 6] = [
        &[Op::TryRecv, Op::DropR],
        &[Op::RecvTimeout(100), Op::DropR],
        &[Op::Drain, Op::CloneR(true), Op::DropR, Op::DropR],
        &[Op::TryRecvRt, Op::CloseR],
        &[Op::ARecvDrop(1), Op::ConvR, Op::DropR],
        &[Op::RecvTimeout(20), Op::TryRecv, Op::DropR],
    ];
    // mutators: always one sender script; often a receiver script as well
    threads.push(ThreadPlan { sender: Some(rng.chance(1, 2)), receiver: None, ops: rng.pick(&scripts_s).to_vec(), reps: 1, until_end: false, spin_obs: false, tight: rng.chance(3, 4), dies: false });
    if rng.chance(1, 2) {
        threads.push(ThreadPlan { sender: None, receiver: Some(rng.chance(1, 2)), ops: rng.pick(&scripts_r).to_vec(), reps: 1, until_end: false, spin_obs: false, tight: rng.chance(3, 4), dies: false });
    }
    let nobs = if miri { 1 } else { 1 + rng.below(2) as usize };
    for k in 0..nobs {
        // the first observer looks from the receive side (it sees the senders leave), a second one from either
        let recv_side = k == 0 || rng.chance(1, 2);
        let pool: &[Op] = if recv_side {
            &[Op::IsTerminated, Op::IsTerminated, Op::IsTerminated, Op::IsDisconnectedR, Op::Len, Op::IsEmpty, Op::IsFull, Op::SenderCount, Op::ReceiverCount, Op::IsClosed]
        } else {
            &[Op::IsDisconnectedS, Op::IsDisconnectedS, Op::Len, Op::IsEmpty, Op::IsFull, Op::SenderCount, Op::ReceiverCount, Op::IsClosed]
        };
        // one observer per thread, called over and over until the other threads are done (consecutive equal answers
        // are merged into one event afterwards); under Miri a fixed handful of calls
        let fav = *rng.pick(pool);
        let ops: Vec<Op> = if miri { (0..8).map(|_| if rng.chance(1, 2) { fav } else { *rng.pick(pool) }).collect() } else { vec![fav; 8] };
        threads.push(ThreadPlan { sender: (!recv_side).then(|| rng.chance(1, 2)), receiver: recv_side.then(|| rng.chance(1, 2)), ops, reps: 1, until_end: false, spin_obs: !miri, tight: false, dies: false });
    }
    Program { cap, class, async_ctor: rng.chance(1, 2), threads, delay_permille: 0 }
}

fn gen_short(rng: &mut Rng, miri: bool, classes: &[&'static str]) -> Program {
    if rng.chance(1, 3) {
        return gen_obs(rng, miri, classes);
    }
    let cap = *rng.pick(&[Some(0), Some(0), Some(1), Some(2), None, Some(3)]);
    let class = *rng.pick(classes);
    let nth = if miri { 2 + rng.below(2) } else { 2 + rng.below(3) } as usize;
    let mut threads = Vec::new();
    for t in 0..nth {
        // make sure both sides exist somewhere
        let mut s = rng.chance(6, 10);
        let mut r = rng.chance(6, 10);
        if t == 0 && !s {
            s = true;
        }
        if t == 1 && !r {
            r = true;
        }
        if !s && !r {
            if rng.chance(1, 2) {
                s = true
            } else {
                r = true
            }
        }
        let both = s && r;
        let nops = 1 + rng.below(if miri { 3 } else { 5 }) as usize;
        let mut ops = Vec::new();
        for _ in 0..nops {
            let us = *rng.pick(&[0u32, 1, 20, 100, 400, 1500]);
            let k = rng.below(4) as u8;
            let mut cand: Vec<Op> = Vec::new();
            if s {
                // a thread that also holds a receiver never issues an unbounded blocking send (it could wait for itself)
                if !both {
                    cand.extend([Op::Send, Op::Send, Op::ASend, Op::ASend]);
                }
                cand.extend([Op::SendTimeout(us), Op::SendOptTimeout(us), Op::TrySend, Op::TrySendOpt, Op::TrySendRt, Op::TrySendOptRt, Op::ASendDrop(k), Op::ASendDrop(k)]);
                cand.extend([Op::CloneS(rng.chance(1, 2)), Op::DropS, Op::ConvS, Op::IsDisconnectedS]);
                if rng.chance(1, 4) {
                    cand.push(Op::CloseS);
                }
            }
            if r {
                if !both {
                    cand.extend([Op::Recv, Op::Recv, Op::ARecv, Op::ARecv, Op::StreamNext]);
                }
                cand.extend([Op::RecvTimeout(us), Op::TryRecv, Op::TryRecvRt, Op::ARecvDrop(k), Op::ARecvDrop(k), Op::Drain, Op::Drain]);
                cand.extend([Op::CloneR(rng.chance(1, 2)), Op::DropR, Op::ConvR, Op::IsDisconnectedR, Op::IsTerminated]);
                if rng.chance(1, 4) {
                    cand.push(Op::CloseR);
                }
            }
            if rng.chance(1, 3) {
                cand.extend([Op::Len, Op::IsEmpty, Op::IsFull, Op::SenderCount, Op::ReceiverCount, Op::IsClosed]);
            }
            ops.push(*rng.pick(&cand));
        }
        // a third of the threads run their script back to back (only takes effect when no call in it can block)
        let tight = !miri && rng.chance(1, 3);
        threads.push(ThreadPlan { sender: s.then(|| rng.chance(1, 2)), receiver: r.then(|| rng.chance(1, 2)), ops, reps: 1, until_end: false, spin_obs: false, tight, dies: rng.chance(1, 5) });
    }
    Program { cap, class, async_ctor: rng.chance(1, 2), threads, delay_permille: *rng.pick(&[0, 100, 300, 600]) }
}

/// handle churn: every thread owns both sides and only clones (all ways), converts, drops and reads counts;
/// a few threads also move values so that disconnect/refill paths stay in play
fn gen_churn(rng: &mut Rng, classes: &[&'static str], per_thread: u32, maxthreads: u64) -> Program {
    let n = 2 + rng.below(maxthreads.max(2) - 1) as usize;
    let mut threads = Vec::new();
    for t in 0..n {
        let mut ops = Vec::new();
        for _ in 0..24 {
            let o = if t == 0 && rng.chance(1, 3) {
                *rng.pick(&[Op::TrySend, Op::TryRecv, Op::Drain, Op::Len])
            } else {
                *rng.pick(&[Op::CloneS(false), Op::CloneS(true), Op::CloneS(false), Op::CloneS(true), Op::DropS, Op::DropS, Op::ConvS, Op::CloneR(false), Op::CloneR(true), Op::DropR, Op::ConvR, Op::SenderCount, Op::ReceiverCount, Op::SenderCount])
            };
            ops.push(o);
        }
        threads.push(ThreadPlan { sender: Some(rng.chance(1, 2)), receiver: Some(rng.chance(1, 2)), ops, reps: per_thread / 24 + 1, until_end: false, spin_obs: false, tight: false, dies: false });
    }
    Program { cap: *rng.pick(&[Some(0), Some(2), None]), class: *rng.pick(classes), async_ctor: rng.chance(1, 2), threads, delay_permille: *rng.pick(&[0, 0, 50]) }
}

#[derive(Clone, Copy, PartialEq)]
enum Ending {
    Natural,
    CloseMid,
    ReceiversLeave,
}

fn gen_long(rng: &mut Rng, classes: &[&'static str], caps: &[Option<usize>], per_thread: u32, maxthreads: u64) -> (Program, Ending) {
    let cap = *rng.pick(caps);
    let class = *rng.pick(classes);
    let np = 1 + rng.below(maxthreads) as usize;
    let nc = 1 + rng.below(maxthreads) as usize;
    let ending = *rng.pick(&[Ending::Natural, Ending::Natural, Ending::CloseMid, Ending::ReceiversLeave]);
    let mut threads = Vec::new();
    let tus: [u32; 6] = [0, 5, 50, 300, 2000, kverif::scn::LONG_US];
    for _ in 0..np {
        let mut ops = Vec::new();
        // each producer has its own mix (some are single-API, which is what the FIFO oracle likes)
        let style = rng.below(6);
        for _ in 0..16 {
            let us = *rng.pick(&tus);
            let kk = 1 + rng.below(3) as u8;
            let o = match style {
                0 => Op::Send,
                1 => Op::ASend,
                2 => *rng.pick(&[Op::Send, Op::SendTimeout(us), Op::SendOptTimeout(us)]),
                3 => *rng.pick(&[Op::TrySend, Op::TrySendOpt, Op::TrySendRt, Op::TrySendOptRt, Op::SendTimeout(us)]),
                4 => *rng.pick(&[Op::ASend, Op::ASendDrop(kk), Op::Send]),
                _ => *rng.pick(&[Op::Send, Op::SendTimeout(us), Op::SendOptTimeout(us), Op::TrySend, Op::TrySendOpt, Op::TrySendRt, Op::TrySendOptRt, Op::ASend, Op::ASendDrop(2), Op::CloneS(true), Op::DropS, Op::ConvS, Op::Len, Op::SenderCount, Op::ReceiverCount]),
            };
            ops.push(o);
        }
        threads.push(ThreadPlan { sender: Some(rng.chance(1, 2)), receiver: None, ops, reps: per_thread / 16 + 1, until_end: false, spin_obs: false, tight: false, dies: rng.chance(1, 4) });
    }
    for _ in 0..nc {
        let mut ops = Vec::new();
        let style = rng.below(7);
        for _ in 0..16 {
            let us = *rng.pick(&tus);
            let kk = 1 + rng.below(3) as u8;
            let o = match style {
                0 => Op::Recv,
                1 => Op::ARecv,
                2 => Op::StreamNext,
                3 => *rng.pick(&[Op::Recv, Op::RecvTimeout(us)]),
                4 => *rng.pick(&[Op::Drain, Op::Drain, Op::Recv]),
                5 => *rng.pick(&[Op::TryRecv, Op::TryRecvRt, Op::RecvTimeout(us)]),
                _ => *rng.pick(&[Op::Recv, Op::RecvTimeout(us), Op::TryRecv, Op::TryRecvRt, Op::ARecv, Op::ARecvDrop(kk), Op::Drain, Op::CloneR(true), Op::DropR, Op::ConvR, Op::Len, Op::SenderCount, Op::ReceiverCount, Op::IsTerminated]),
            };
            ops.push(o);
        }
        // a consumer must have at least one call that can report the end of the channel
        if !ops.iter().any(|o| matches!(o, Op::Recv | Op::ARecv | Op::StreamNext | Op::RecvTimeout(_) | Op::TryRecv)) {
            ops[0] = Op::Recv;
        }
        let reps = if ending == Ending::ReceiversLeave { per_thread / 64 + 1 } else { u32::MAX };
        threads.push(ThreadPlan { sender: None, receiver: Some(rng.chance(1, 2)), ops, reps, until_end: true, spin_obs: false, tight: false, dies: false });
    }
    if ending == Ending::CloseMid {
        // a closer (holds a sender handle, only closes)
        threads.push(ThreadPlan { sender: Some(false), receiver: None, ops: vec![Op::Len, Op::SenderCount, Op::CloseS, Op::CloseS, Op::IsClosed], reps: 1, until_end: false, spin_obs: false, tight: false, dies: false });
    }
    (Program { cap, class, async_ctor: rng.chance(1, 2), threads, delay_permille: *rng.pick(&[0, 0, 20, 100]) }, ending)
}

struct RunOut {
    events: Vec<Event>,
    s0: u32,
    r0: u32,
    sig: u64,
}

enum RunErr {
    Stuck(Vec<(usize, u32, String)>, Program),
    Inconclusive(String),
    Panic(usize, String),
}

fn run_program<T: Payload>(p: &Program, seed: u64, long: bool, closer_delay_us: u64, grace: Duration, cap_wall: Duration) -> Result<RunOut, RunErr> {
    let l = ledger();
    l.reset();
    stuck::reset_all();
    fp::reset_gates();
    fp::trace_reset();
    fp::set_random_delays(p.delay_permille, seed, if long { 60 } else { 150 });
    let (s, r) = new_chan::<T>(p.cap, p.async_ctor);
    let n = p.threads.len();
    let span = if long { (l.n as u64 - payload::FIRST_UNIQUE) / n as u64 } else { 64 };
    let go = Arc::new(AtomicBool::new(false));
    let done_mut = Arc::new(std::sync::atomic::AtomicUsize::new(0));
    let n_mut = p.threads.iter().filter(|t| !t.spin_obs).count();
    let mut handles = Vec::new();
    let mut s0 = 0;
    let mut r0 = 0;
    let mut rng = Rng::new(seed);
    for (i, tp) in p.threads.iter().enumerate() {
        let mut ctx = ThreadCtx::<T>::new(i as u16, payload::FIRST_UNIQUE + i as u64 * span, payload::FIRST_UNIQUE + (i as u64 + 1) * span);
        ctx.set_pat(seed ^ (i as u64) << 8);
        ctx.keep_one = long && tp.sender.is_some() && tp.receiver.is_some() && tp.ops.len() == 24;
        if let Some(a) = tp.sender {
            ctx.senders.push(s.clone_as(a));
            s0 += 1;
        }
        if let Some(a) = tp.receiver {
            ctx.receivers.push(r.clone_as(a));
            r0 += 1;
        }
        let tp = tp.clone();
        let go = go.clone();
        let done_mut = done_mut.clone();
        let pre = if tp.spin_obs { 0 } else { rng.below(if long { 5 } else { 3000 }) };
        let is_closer = long && tp.ops.contains(&Op::CloseS) && tp.ops.len() == 5;
        handles.push(
            std::thread::Builder::new()
                .stack_size(256 * 1024)
                .spawn(move || {
                    let slot = stuck::slot(i);
                    slot.begin_thread();
                    ctx.status = Some(slot);
                    fp::set_role(i as u32 + 1);
                    let th = ctx.th;
                    let body = std::panic::catch_unwind(std::panic::AssertUnwindSafe(move || {
                    while !go.load(Ordering::Acquire) {
                        std::hint::spin_loop();
                        if cfg!(miri) {
                            std::thread::yield_now();
                        }
                    }
                    for _ in 0..pre {
                        std::hint::spin_loop();
                    }
                    if is_closer && !cfg!(miri) {
                        std::thread::sleep(Duration::from_micros(closer_delay_us));
                    }
                    let mut rounds = 0u32;
                    let mut after_done = false;
                    if tp.tight {
                        ctx.exec_tight(&tp.ops);
                    }
                    if tp.spin_obs {
                        let dm = done_mut.clone();
                        ctx.exec_spin(tp.ops[0], &move || dm.load(Ordering::Acquire) >= n_mut);
                    }
                    'outer: loop {
                        if tp.tight || tp.spin_obs {
                            break;
                        }
                        for op in &tp.ops {
                            if let Some(k) = ctx.exec(*op) {
                                if tp.until_end {
                                    let e = &ctx.log[k];
                                    let end = match (&e.op, &e.res) {
                                        (Op::Drain, _) => false,
                                        (_, Res::Closed) | (_, Res::SendClosed) => true,
                                        (Op::StreamNext, Res::NoneV) => true,
                                        _ => false,
                                    };
                                    if end {
                                        break 'outer;
                                    }
                                }
                            } else if tp.until_end && ctx.receivers.is_empty() && !matches!(op, Op::StreamNext) {
                                // dropped its last receiver: nothing more to do
                                if !ctx.has_for(Op::StreamNext) {
                                    break 'outer;
                                }
                            }
                        }
                        rounds += 1;
                        if tp.spin_obs {
                            // one more full pass after the last mutator finished, then stop; bounded in any case
                            if after_done || ctx.log.len() > 6000 {
                                break;
                            }
                            after_done = done_mut.load(Ordering::Acquire) >= n_mut;
                            continue;
                        }
                        if rounds >= tp.reps {
                            break;
                        }
                    }
                    if !tp.spin_obs {
                        done_mut.fetch_add(1, Ordering::Release);
                    }
                    if tp.dies && !tp.spin_obs {
                        // ends by a panic: `ctx` is dropped by the unwinding and lets its handles go then
                        kverif::ops::die();
                    }
                    ctx.finish();
                    if tp.spin_obs {
                        // consecutive identical observations become one event spanning all of them (weaker, hence
                        // never a false alarm: any linearization of the originals gives one of the merged event)
                        let mut merged: Vec<Event> = Vec::new();
                        for e in ctx.log.drain(..) {
                            match merged.last_mut() {
                                Some(l) if l.op == e.op && l.res == e.res && l.op.is_observer() => l.t1 = e.t1,
                                _ => merged.push(e),
                            }
                        }
                        return merged;
                    }
                    std::mem::take(&mut ctx.log)
                    }));
                    slot.finish();
                    match body {
                        Ok(log) => log,
                        Err(p) if p.is::<kverif::ops::Died>() => kverif::ops::take_death_log(th),
                        Err(p) => std::panic::resume_unwind(p),
                    }
                })
                .unwrap(),
        );
    }
    // the constructor's own two handles go away before the workers start
    drop(s);
    drop(r);
    go.store(true, Ordering::Release);
    match stuck::join_all(handles, grace, cap_wall) {
        Ok(logs) => {
            fp::set_random_delays(0, 0, 1);
            // every handle is gone: the drop probe (if any) is the last owner of the channel; letting it go frees
            // the channel and destroys what is still buffered, before the ledger is read
            payload::set_drop_probe(None);
            let sig = fp::trace_signature();
            let mut events: Vec<Event> = logs.into_iter().flatten().collect();
            if T::TRACKED {
                oracles::resolve_consumed(&mut events, l);
            }
            Ok(RunOut { events, s0, r0, sig })
        }
        Err(JoinErr::Stuck(v)) => Err(RunErr::Stuck(v, p.clone())),
        Err(JoinErr::Inconclusive(s)) => Err(RunErr::Inconclusive(s)),
        Err(JoinErr::Panicked(i, m)) => Err(RunErr::Panic(i, m)),
    }
}

fn prog_json(p: &Program) -> J {
    J::O(vec![
        ("capacity".into(), J::s(cap_name(p.cap))),
        ("class".into(), J::s(p.class)),
        ("async_ctor".into(), J::B(p.async_ctor)),
        ("delay_permille".into(), J::U(p.delay_permille as u64)),
        (
            "threads".into(),
            J::A(p.threads
                .iter()
                .map(|t| {
                    J::O(vec![
                        ("sender".into(), t.sender.map(|a| J::s(if a { "async" } else { "sync" })).unwrap_or(J::Null)),
                        ("receiver".into(), t.receiver.map(|a| J::s(if a { "async" } else { "sync" })).unwrap_or(J::Null)),
                        ("ops".into(), J::A(t.ops.iter().map(|o| J::s(format!("{:?}", o))).collect())),
                        ("reps".into(), J::U(t.reps as u64)),
                    ])
                })
                .collect()),
        ),
    ])
}

fn hist_sig(ev: &[Event]) -> u64 {
    let mut idx: Vec<usize> = (0..ev.len()).collect();
    idx.sort_by_key(|i| (ev[*i].t0, ev[*i].th, ev[*i].idx));
    let mut h = 1u64;
    for i in idx {
        let e = &ev[i];
        h = hash_mix(h, (e.th as u64) << 32 | e.idx as u64);
        h = hash_mix(h, format!("{:?}", e.res).bytes().fold(3u64, |a, b| hash_mix(a, b as u64)));
    }
    h
}
fn outcome_sig(ev: &[Event]) -> u64 {
    let mut v: Vec<(u16, u32, String)> = ev.iter().map(|e| (e.th, e.idx, format!("{:?}", e.res))).collect();
    v.sort();
    v.iter().fold(5u64, |h, x| hash_mix(h, x.2.bytes().fold(x.0 as u64 * 131 + x.1 as u64, |a, b| hash_mix(a, b as u64))))
}

struct Agg {
    viols: Vec<J>,
    nviol: u64,
    by_prop: HashMap<String, u64>,
    inconclusive: u64,
    inconclusive_reasons: Vec<String>,
    obs: Obs,
    runs: u64,
    events: u64,
    hist_sigs: HashSet<u64>,
    outcome_sigs: HashSet<u64>,
    trace_sigs: HashSet<u64>,
    lin_states: u64,
    lin_checked: u64,
    op_res: HashMap<String, u64>,
    samples: Vec<J>,
    blocked_ops: u64,
    nontrivial_sigs: HashSet<u64>,
}

fn add_viol(a: &mut Agg, prop: &str, msg: String, p: &Program, ev: &[Event], involved: &[usize], replay: String) {
    a.nviol += 1;
    *a.by_prop.entry(prop.to_string()).or_insert(0) += 1;
    if a.viols.len() < 12 {
        // dump the involved events and (for short histories) everything
        let mut evs: Vec<J> = Vec::new();
        if ev.len() <= 64 {
            let mut idx: Vec<usize> = (0..ev.len()).collect();
            idx.sort_by_key(|i| ev[*i].t0);
            for i in idx {
                evs.push(J::s(ev[i].short()));
            }
        } else {
            for i in involved.iter().take(8) {
                evs.push(J::s(ev[*i].short()));
            }
        }
        a.viols.push(J::O(vec![("property".into(), J::s(prop)), ("what".into(), J::s(msg)), ("program".into(), prog_json(p)), ("history".into(), J::A(evs)), ("replay".into(), J::s(replay))]));
    }
}

fn main() {
    let a = kverif::args();
    let seed = kverif::arg_u64(&a, "seed", 1);
    let mode = kverif::arg_str(&a, "mode", "short").to_string();
    let nprog = kverif::arg_u64(&a, "programs", 50);
    let runs = kverif::arg_u64(&a, "runs", 50);
    let only = a.get("only-program").map(|s| s.parse::<u64>().unwrap());
    let per_thread = kverif::arg_u64(&a, "per-thread", 2000) as u32;
    let maxthreads = kverif::arg_u64(&a, "max-threads", 4);
    let lin_budget = kverif::arg_u64(&a, "lin-budget", 300_000);
    let stop_after = kverif::arg_u64(&a, "stop-after", 5);
    // under Miri the clock is virtual: time must never be a verdict there (Miri reports deadlocks itself)
    let grace = Duration::from_millis(if cfg!(miri) { u32::MAX as u64 * 1000 } else { kverif::arg_u64(&a, "grace-ms", 20_000) });
    let cap_wall = Duration::from_millis(if cfg!(miri) { u32::MAX as u64 * 1000 } else { kverif::arg_u64(&a, "cap-ms", 120_000) });
    let budget_s = kverif::arg_u64(&a, "budget-s", 3600) as f64;
    let classes_arg = kverif::arg_str(&a, "classes", "").to_string();
    let classes: Vec<&'static str> = if classes_arg.is_empty() {
        if mode != "short" { UNIQUE_CLASSES.to_vec() } else { ALL_CLASSES.to_vec() }
    } else {
        classes_arg.split(',').map(|c| *ALL_CLASSES.iter().find(|x| **x == c).expect("class")).collect()
    };
    let caps_arg = kverif::arg_str(&a, "caps", "0,1,2,7,u").to_string();
    let caps: Vec<Option<usize>> = caps_arg.split(',').map(parse_cap).collect();
    let miri = cfg!(miri);
    payload::init(if cfg!(miri) { 1 << 10 } else if mode != "short" { 1 << 22 } else { 1 << 11 });
    payload::want_drop_probe(kverif::arg_u64(&a, "drop-probe", 0) != 0);
    fp::install();
    #[cfg(feature = "tsan")]
    kverif::tsan::install();
    let hits0 = fp::hits();
    let t0 = std::time::Instant::now();
    let mut ag = Agg {
        viols: vec![],
        nviol: 0,
        by_prop: HashMap::new(),
        inconclusive: 0,
        inconclusive_reasons: vec![],
        obs: Obs::default(),
        runs: 0,
        events: 0,
        hist_sigs: HashSet::new(),
        outcome_sigs: HashSet::new(),
        trace_sigs: HashSet::new(),
        lin_states: 0,
        lin_checked: 0,
        op_res: HashMap::new(),
        samples: vec![],
        blocked_ops: 0,
        nontrivial_sigs: HashSet::new(),
    };
    let mut master = Rng::new(seed);
    let mut programs_run = 0u64;
    'progs: for pi in 0..nprog {
        let mut prng = master.fork(pi);
        if let Some(o) = only {
            if o != pi {
                continue;
            }
        }
        if t0.elapsed().as_secs_f64() > budget_s {
            break;
        }
        let (p, closer_span) = if mode == "churn" {
            (gen_churn(&mut prng, &classes, per_thread, maxthreads), 0)
        } else if mode == "long" {
            let (p, _e) = gen_long(&mut prng, &classes, &caps, per_thread, maxthreads);
            (p, per_thread as u64 / 4 + 50)
        } else {
            (gen_short(&mut prng, miri, &classes), 0)
        };
        programs_run += 1;
        let mut per_prog_outcomes: HashSet<u64> = HashSet::new();
        for ri in 0..runs {
            let rseed = prng.next();
            let closer_delay = if closer_span > 0 { rseed % closer_span } else { 0 };
            fn go<T: Payload>(p: &Program, seed: u64, long: bool, cd: u64, g: Duration, c: Duration) -> (Result<RunOut, RunErr>, bool) {
                (run_program::<T>(p, seed, long, cd, g, c), T::TRACKED)
            }
            let (r, unique) = with_class!(p.class, go(&p, rseed, mode != "short", closer_delay, grace, cap_wall));
            let replay = format!("hist --mode {} --seed {} --only-program {} --programs {} --runs {} --per-thread {} --max-threads {} --classes {} --caps {}", mode, seed, pi, pi + 1, runs.max(200), per_thread, maxthreads, classes.join(","), caps_arg);
            match r {
                Err(RunErr::Stuck(v, p)) => {
                    let msg = format!(
                        "no worker made progress for {:?} while every unfinished worker was inside a blocking channel call although its counterparts had finished or were equally blocked: {}",
                        grace,
                        v.iter().map(|(s, op, d)| format!("worker {} in op #{} ({})", s, (op & 0xfffff) - 1, d)).collect::<Vec<_>>().join("; ")
                    );
                    add_viol(&mut ag, "C06", msg, &p, &[], &[], replay);
                    // the stuck threads cannot be joined: report and leave
                    break 'progs;
                }
                Err(RunErr::Inconclusive(s)) => {
                    ag.inconclusive += 1;
                    ag.inconclusive_reasons.push(s);
                    break 'progs;
                }
                Err(RunErr::Panic(i, m)) => {
                    add_viol(&mut ag, "C18", format!("worker {} panicked inside the harness/channel: {}", i, m), &p, &[], &[], replay);
                    break 'progs;
                }
                Ok(out) => {
                    ag.runs += 1;
                    ag.events += out.events.len() as u64;
                    let ev = &out.events;
                    let hs = hist_sig(ev);
                    let os = outcome_sig(ev);
                    ag.trace_sigs.insert(out.sig);
                    per_prog_outcomes.insert(os);
                    let blocked = ev.iter().filter(|e| e.op.may_block() && e.t1 - e.t0 > 30_000).count() as u64;
                    ag.blocked_ops += blocked;
                    if ag.hist_sigs.insert(hs) && (blocked > 0 || ev.iter().any(|e| matches!(e.res, Res::Timeout | Res::Cancelled(_) | Res::Closed | Res::SendClosed | Res::RecvClosed))) {
                        ag.nontrivial_sigs.insert(hs);
                    }
                    ag.outcome_sigs.insert(hash_mix(os, pi));
                    for e in ev.iter() {
                        let rn = format!("{:?}", e.res);
                        let rn = rn.split('(').next().unwrap().to_string();
                        *ag.op_res.entry(format!("{}->{}", e.op.name(), rn)).or_insert(0) += 1;
                    }
                    let h = Hist { ev, cap: p.cap, s0: out.s0, r0: out.r0, unique };
                    let mut obs = Obs::default();
                    let vs: Vec<Viol> = oracles::check_all(&h, ledger(), &mut obs);
                    merge_obs(&mut ag.obs, &obs);
                    let had = !vs.is_empty();
                    for v in vs {
                        add_viol(&mut ag, v.prop, v.msg, &p, ev, &v.events, replay.clone());
                    }
                    if mode == "short" && !had {
                        let mut m = RefChan::new(p.cap);
                        m.sc = out.s0;
                        m.rc = out.r0;
                        let mut lin = Lin::new(ev, lin_budget, unique);
                        match lin.check(m) {
                            LinResult::Ok { states } => {
                                ag.lin_states += states;
                                ag.lin_checked += 1;
                            }
                            LinResult::Inconclusive { states } => {
                                ag.lin_states += states;
                                ag.inconclusive += 1;
                                if ag.inconclusive_reasons.len() < 3 {
                                    ag.inconclusive_reasons.push(format!("linearizability search budget ({} states) exhausted on a history of {} events", lin_budget, ev.len()));
                                }
                            }
                            LinResult::Violation { states, deepest } => {
                                ag.lin_states += states;
                                ag.lin_checked += 1;
                                let msg = format!(
                                    "no interleaving of atomic reference-channel steps consistent with real-time and program order explains this history ({} states searched; the longest explainable prefix linearizes {} step(s): {:?})",
                                    states,
                                    deepest.len(),
                                    deepest.iter().map(|i| format!("T{}#{}", ev[*i].th, ev[*i].idx)).collect::<Vec<_>>()
                                );
                                add_viol(&mut ag, "C03", msg, &p, ev, &[], replay.clone());
                            }
                        }
                    }
                    if ag.samples.len() < 4 && (ri == 1 || ev.len() < 40) && ev.len() <= 40 {
                        let mut idx: Vec<usize> = (0..ev.len()).collect();
                        idx.sort_by_key(|i| ev[*i].t0);
                        ag.samples.push(J::O(vec![("program".into(), prog_json(&p)), ("history".into(), J::A(idx.iter().map(|i| J::s(ev[*i].short())).collect()))]));
                    } else if ag.samples.len() < 2 && mode == "long" {
                        ag.samples.push(J::O(vec![("program".into(), prog_json(&p)), ("events".into(), J::U(ev.len() as u64)), ("first_events".into(), J::A(ev.iter().take(12).map(|e| J::s(e.short())).collect()))]));
                    }
                    if ag.nviol >= stop_after {
                        break 'progs;
                    }
                }
            }
        }
    }
    let hits = fp::hits_delta(&hits0);
    let mut out = J::obj();
    out.set("engine", J::s("hist"));
    out.set("threads_that_died_by_panic", J::U(kverif::ops::DEATHS.load(std::sync::atomic::Ordering::Relaxed)));
    out.set("drop_probe_calls", J::U(payload::PROBE_CALLS.load(std::sync::atomic::Ordering::Relaxed)));
    out.set("mode", J::s(mode.clone()));
    out.set("seed", J::U(seed));
    out.set("programs", J::U(programs_run));
    out.set("executions", J::U(ag.runs));
    out.set("events", J::U(ag.events));
    out.set("distinct_histories", J::U(ag.hist_sigs.len() as u64));
    out.set("distinct_nontrivial_histories", J::U(ag.nontrivial_sigs.len() as u64));
    if ag.nontrivial_sigs.len() <= 30000 {
        out.set("nontrivial_sigs", J::A(ag.nontrivial_sigs.iter().map(|h| J::U(*h >> 12)).collect()));
    }
    out.set("distinct_outcome_vectors", J::U(ag.outcome_sigs.len() as u64));
    out.set("distinct_failpoint_orders", J::U(ag.trace_sigs.len() as u64));
    out.set("blocked_ops", J::U(ag.blocked_ops));
    out.set("lin_checked", J::U(ag.lin_checked));
    out.set("lin_states", J::U(ag.lin_states));
    out.set("inconclusive", J::U(ag.inconclusive));
    out.set("inconclusive_reasons", J::A(ag.inconclusive_reasons.iter().map(|s| J::s(s.clone())).collect()));
    out.set("obs", obs_json(&ag.obs));
    let mut orv: Vec<(String, u64)> = ag.op_res.into_iter().collect();
    orv.sort();
    out.set("op_results", J::O(orv.into_iter().map(|(k, v)| (k, J::U(v))).collect()));
    out.set("failpoint_hits", fp::hits_json(&hits));
    out.set("samples", J::A(ag.samples));
    out.set("violations", J::A(ag.viols));
    let mut bp: Vec<(String, u64)> = ag.by_prop.into_iter().collect();
    bp.sort();
    out.set("violations_by_property", J::O(bp.into_iter().map(|(k, v)| (k, J::U(v))).collect()));
    out.set("nviolations", J::U(ag.nviol));
    out.set("wall_s", J::F(t0.elapsed().as_secs_f64()));
    println!("{}", out.to_string());
    // stuck worker threads may still exist: leave without joining
    std::process::exit(if ag.nviol > 0 { 1 } else if ag.inconclusive > 0 && ag.runs == 0 { 3 } else { 0 });
}

fn merge_obs(a: &mut Obs, b: &Obs) {
    a.sends_ok += b.sends_ok;
    a.sends_failed += b.sends_failed;
    a.sends_cancelled += b.sends_cancelled;
    a.received += b.received;
    a.consumed_by_dropped_future += b.consumed_by_dropped_future;
    a.destroyed_by_channel += b.destroyed_by_channel;
    a.fifo_pairs += b.fifo_pairs;
    a.max_excess = a.max_excess.max(b.max_excess);
    a.closes_won += b.closes_won;
    a.closes_lost += b.closes_lost;
    a.ops_after_close += b.ops_after_close;
    a.disconnect_errors += b.disconnect_errors;
    a.count_reads += b.count_reads;
    a.timeouts += b.timeouts;
    if a.min_timeout_slack_ns == 0 && a.timeouts == b.timeouts {
        a.min_timeout_slack_ns = b.min_timeout_slack_ns;
    } else {
        a.min_timeout_slack_ns = a.min_timeout_slack_ns.min(b.min_timeout_slack_ns);
    }
    a.timed_success_after_block += b.timed_success_after_block;
    a.drains += b.drains;
    a.drained_values += b.drained_values;
}
fn obs_json(o: &Obs) -> J {
    J::O(vec![
        ("sends_ok".into(), J::U(o.sends_ok)),
        ("sends_failed".into(), J::U(o.sends_failed)),
        ("sends_cancelled".into(), J::U(o.sends_cancelled)),
        ("received".into(), J::U(o.received)),
        ("consumed_by_dropped_future".into(), J::U(o.consumed_by_dropped_future)),
        ("destroyed_by_channel".into(), J::U(o.destroyed_by_channel)),
        ("fifo_pairs".into(), J::U(o.fifo_pairs)),
        ("max_excess".into(), J::I(o.max_excess)),
        ("closes_won".into(), J::U(o.closes_won)),
        ("closes_lost".into(), J::U(o.closes_lost)),
        ("ops_after_close".into(), J::U(o.ops_after_close)),
        ("disconnect_errors".into(), J::U(o.disconnect_errors)),
        ("count_reads".into(), J::U(o.count_reads)),
        ("timeouts".into(), J::U(o.timeouts)),
        ("min_timeout_slack_ns".into(), J::I(if o.min_timeout_slack_ns == i64::MAX { -1 } else { o.min_timeout_slack_ns })),
        ("timed_success_after_block".into(), J::U(o.timed_success_after_block)),
        ("drains".into(), J::U(o.drains)),
        ("drained_values".into(), J::U(o.drained_values)),
    ])
}
