//! E3 `scen`: the scripted scenario matrix (see src/scn.rs for the framework).
//! Families: handoff (C04/C09/C01), timed (C13), progress (C06), futdrop (C15),
//! wakerace (C16), frozen (C14), drain (C19), fifo (C02), closedisc (C10/C11).
//! `--family all|name[,name..]`, `--samples N` cases per family drawn from the
//! family's full parameter space by the seed (`--exhaustive` enumerates it).
use kverif::fp::{self, *};
use kverif::json::J;
use kverif::ops::*;
use kverif::oracles::Obs;
use kverif::payload::{self, Payload};
use kverif::rng::{hash_mix, Rng};
use kverif::scn::*;
use kverif::stuck;
use kverif::with_class;
use std::collections::{BTreeMap, HashSet};
use std::sync::atomic::{AtomicBool, Ordering};
use std::sync::Arc;
use std::task::Poll;
use std::time::Duration;

const CLASSES: [&str; 14] = ["P8", "PB", "L40", "LS", "S4", "L16", "S1", "Z0", "ZA", "N4", "N8", "N40", "A32", "P0"];
const D_US: u32 = 3000;

#[derive(Clone, Debug)]
struct Case {
    fam: &'static str,
    class: &'static str,
    cap: Option<usize>,
    /// family specific parameters
    a: u32,
    b: u32,
    c: u32,
    d: u32,
    seed: u64,
}
impl Case {
    fn id(&self) -> String {
        format!("{}:{}:{}:{}.{}.{}.{}", self.fam, self.class, kverif::exec::cap_name(self.cap), self.a, self.b, self.c, self.d)
    }
}

struct Ctx {
    obs: Obs,
    samples: Vec<Vec<String>>,
    lin_states: u64,
    cells: BTreeMap<String, u64>,
    lin_budget: u64,
}

fn wr_kinds() -> Vec<Op> {
    vec![Op::Recv, Op::RecvTimeout(LONG_US), Op::ARecv, Op::StreamNext]
}
fn ps_kinds() -> Vec<Op> {
    vec![Op::Send, Op::TrySend, Op::TrySendOpt, Op::TrySendRt, Op::TrySendOptRt, Op::SendTimeout(LONG_US), Op::SendOptTimeout(LONG_US), Op::ASend]
}
fn ws_kinds() -> Vec<Op> {
    vec![Op::Send, Op::SendTimeout(LONG_US), Op::SendOptTimeout(LONG_US), Op::ASend]
}
fn pr_kinds() -> Vec<Op> {
    vec![Op::Recv, Op::TryRecv, Op::TryRecvRt, Op::RecvTimeout(LONG_US), Op::ARecv, Op::StreamNext, Op::Drain]
}
fn opn(o: &Op) -> String {
    o.name()
}
fn cell(cx: &mut Ctx, k: String) {
    *cx.cells.entry(k).or_insert(0) += 1;
}
fn is_succ(r: &Res) -> bool {
    matches!(r, Res::Ok | Res::True)
}

fn fill<T: Payload>(sc: &mut Scn<T>) {
    if let Some(n) = sc.cap {
        for _ in 0..n {
            sc.mexec(Op::TrySend);
        }
    }
}
fn main_flavour<T: Payload>(sc: &mut Scn<T>, want_async_s: bool, want_async_r: bool) {
    if sc.main.senders[0].is_async() != want_async_s {
        sc.mexec(Op::ConvS);
    }
    if sc.main.receivers[0].is_async() != want_async_r {
        sc.mexec(Op::ConvR);
    }
}

// ---------------------------------------------------------------------------------------------
// A. hand-off matrix: transfer path x waiter kind x active peer kind x flavours x class
fn fam_handoff<T: Payload>(c: &Case, cx: &mut Ctx) -> Outcome {
    let path = c.a; // 0 into blocked receiver's slot, 1 out of blocked sender's slot (cap 0) / refill (cap>=1), 2 through the buffer
    let wflav = c.d & 1 == 1;
    let pflav = c.d & 2 == 2;
    let mut sc = Scn::<T>::new(c.cap, c.d & 4 == 4, c.seed);
    main_flavour(&mut sc, pflav, pflav);
    match path {
        0 => {
            let wk = wr_kinds()[c.b as usize % 4];
            let pk = ps_kinds()[c.c as usize % 8];
            let w = sc.spawn(Side::R, wflav, vec![wk]);
            if !sc.wait_registered(w, 0, 1) {
                return sc.finish(cx.lin_budget, &mut cx.obs, &mut cx.samples, &mut cx.lin_states);
            }
            sc.mexec(pk);
            let r = sc.main_result();
            let tag = sc.main.log.last().unwrap().tag.unwrap();
            sc.expect(is_succ(&r), "C08", || format!("{:?} with a receiver waiting must succeed, got {:?}", pk, r));
            sc.join(w);
            let wr = sc.worker_result(w, 0);
            sc.expect(wr == Some(Res::Val(tag)) || !T::UNIQUE && matches!(wr, Some(Res::Val(_))), "C04", || format!("blocked {:?} must obtain exactly the value {} written into its slot, got {:?}", wk, tag, wr));
            let h = sc.hits();
            if h[SEND_ENTER as usize] == 0 {
                sc.inconclusive = Some("value did not travel through a blocked receiver's slot".into());
            }
            cell(cx, format!("handoff/into-receiver-slot/{}<-{}/{}", opn(&wk), opn(&pk), T::NAME));
            cell(cx, format!("flavours/recv-{}-blocked/send-{}-active", if wflav { "async" } else { "sync" }, if pflav { "async" } else { "sync" }));
        }
        1 => {
            let wk = ws_kinds()[c.b as usize % 4];
            let pk = pr_kinds()[c.c as usize % 7];
            fill(&mut sc);
            let w = sc.spawn(Side::S, wflav, vec![wk]);
            if !sc.wait_registered(w, 0, 1) {
                return sc.finish(cx.lin_budget, &mut cx.obs, &mut cx.samples, &mut cx.lin_states);
            }
            sc.mexec(pk);
            let r = sc.main_result();
            sc.expect(matches!(r, Res::Val(_) | Res::Drained(_)), "C06", || format!("{:?} with a value available must obtain it, got {:?}", pk, r));
            // take whatever is left (refill case) without blocking
            for _ in 0..4 {
                sc.mexec(Op::TryRecv);
            }
            sc.join(w);
            let wr = sc.worker_result(w, 0);
            sc.expect(wr == Some(Res::Ok), "C06", || format!("blocked {:?} whose value was taken must report success, got {:?}", wk, wr));
            let h = sc.hits();
            if h[RECV_ENTER as usize] == 0 {
                sc.inconclusive = Some("value was not read out of a blocked sender's slot".into());
            }
            let p = if c.cap == Some(0) { "out-of-sender-slot" } else { "refill-from-blocked-sender" };
            cell(cx, format!("handoff/{}/{}->{}/{}", p, opn(&wk), opn(&pk), T::NAME));
            cell(cx, format!("flavours/send-{}-blocked/recv-{}-active", if wflav { "async" } else { "sync" }, if pflav { "async" } else { "sync" }));
        }
        _ => {
            let sk = ps_kinds()[c.b as usize % 8];
            let rk = pr_kinds()[c.c as usize % 7];
            sc.mexec(sk);
            sc.mexec(rk);
            let r = sc.main_result();
            sc.expect(matches!(r, Res::Val(_) | Res::Drained(_)), "C01", || format!("buffered value not obtained: {:?}", r));
            cell(cx, format!("handoff/buffer/{}->{}/{}", opn(&sk), opn(&rk), T::NAME));
        }
    }
    sc.finish(cx.lin_budget, &mut cx.obs, &mut cx.samples, &mut cx.lin_states)
}
fn space_handoff(caps: &mut Vec<Case>, class: &'static str) {
    for cap in [Some(0), Some(1), Some(2), None] {
        for d in 0..8 {
            for b in 0..4 {
                for c in 0..8 {
                    caps.push(Case { fam: "handoff", class, cap, a: 0, b, c, d, seed: 0 });
                }
            }
            if cap.is_some() {
                for b in 0..4 {
                    for c in 0..7 {
                        caps.push(Case { fam: "handoff", class, cap, a: 1, b, c, d, seed: 0 });
                    }
                }
            }
            if cap != Some(0) {
                for b in 0..8 {
                    for c in 0..7 {
                        caps.push(Case { fam: "handoff", class, cap, a: 2, b, c, d, seed: 0 });
                    }
                }
            }
        }
    }
}

// ---------------------------------------------------------------------------------------------
// B. timed operations exactly at their deadline
fn fam_timed<T: Payload>(c: &Case, cx: &mut Ctx) -> Outcome {
    let wk = [Op::RecvTimeout(D_US), Op::SendTimeout(D_US), Op::SendOptTimeout(D_US)][c.a as usize % 3];
    let variant = c.b % 4; // 0 expires alone, 1 claimed by a peer at the deadline, 2 close at the deadline, 3 disconnect at the deadline
    // where the expiring waiter is frozen: just before its final look at the signal (b < 4), or after it has
    // seen "not completed, not terminated" and before it takes the lock to cancel itself (b >= 4)
    let late = c.b % 8 >= 4;
    let gate = if late { TIMED_BEFORE_CANCEL } else { WAIT_TIMEOUT_EXPIRED };
    let mut sc = Scn::<T>::new(c.cap, c.d & 4 == 4, c.seed);
    let recv_side = matches!(wk, Op::RecvTimeout(_));
    if !recv_side {
        fill(&mut sc);
    }
    let side = if recv_side { Side::R } else { Side::S };
    let w_id = 0usize;
    if variant != 0 || late {
        fp::arm(w_id as u32 + 1, gate);
    }
    let w = sc.spawn(side, c.d & 1 == 1, vec![wk]);
    assert_eq!(w, w_id);
    let name = ["expires-alone", "claimed-at-deadline", "close-at-deadline", "disconnect-at-deadline"][variant as usize];
    let name = format!("{}{}", name, if late { "(after-last-look)" } else { "" });
    match variant {
        0 => {
            if late {
                if !sc.wait_arrived(w, gate) {
                    return sc.finish(cx.lin_budget, &mut cx.obs, &mut cx.samples, &mut cx.lin_states);
                }
                sc.release(w, gate);
            }
            sc.join(w);
            let r = sc.worker_result(w, 0);
            sc.expect(r == Some(Res::Timeout), "C13", || format!("{:?} with no peer must time out, got {:?}", wk, r));
            sc.expect(sc.waiters() == 0, "C13", || "a timed-out operation left an entry in the wait list".into());
            // a later peer must find nothing to deliver into
            if recv_side {
                if c.cap == Some(0) {
                    sc.mexec(Op::TrySend);
                    let r = sc.main_result();
                    sc.expect(r == Res::False, "C13", || format!("try_send after a timed-out receive found a phantom receiver: {:?}", r));
                }
            } else {
                // drain the buffer; the timed-out value must not appear
                sc.mexec(Op::Drain);
            }
        }
        1 => {
            if !sc.wait_arrived(w, gate) {
                return sc.finish(cx.lin_budget, &mut cx.obs, &mut cx.samples, &mut cx.lin_states);
            }
            sc.pin_reg(w, 0);
            let (pside, pop, ppt) = if recv_side { (Side::S, Op::TrySend, SEND_ENTER) } else { (Side::R, Op::TryRecv, RECV_ENTER) };
            // with a buffer the receive is served from the buffer and the blocked sender is only used for the refill (inside the lock)
            fp::arm(2, ppt);
            let p = sc.spawn(pside, c.d & 2 == 2, vec![pop]);
            if !sc.wait_arrived(p, ppt) {
                sc.release(w, gate);
                return sc.finish(cx.lin_budget, &mut cx.obs, &mut cx.samples, &mut cx.lin_states);
            }
            sc.pin_reg(p, 0);
            // the waiter now finds the deadline passed and itself no longer listed: it must wait for the peer
            sc.release(w, gate);
            let inside_lock = !recv_side && c.cap != Some(0);
            if !inside_lock {
                sc.wait_hits(w, WAIT_ENTER, 1);
            } else {
                std::thread::sleep(Duration::from_millis(2));
            }
            sc.expect(!sc.worker_finished(w), "C07", || "the timed-out waiter returned while a peer that had already claimed it was still about to use its slot".into());
            sc.release(p, ppt);
            sc.join(p);
            sc.join(w);
            let r = sc.worker_result(w, 0);
            sc.expect(matches!(r, Some(Res::Ok) | Some(Res::Val(_))), "C13", || format!("{:?} claimed by a peer before it could cancel must end in success, got {:?}", wk, r));
        }
        2 => {
            if !sc.wait_arrived(w, gate) {
                return sc.finish(cx.lin_budget, &mut cx.obs, &mut cx.samples, &mut cx.lin_states);
            }
            sc.pin_reg(w, 0);
            sc.mexec(Op::CloseS);
            sc.release(w, gate);
            sc.join(w);
            let r = sc.worker_result(w, 0);
            sc.expect(r == Some(Res::Closed), "C13", || format!("{:?} terminated by close() at its deadline must report closed, got {:?}", wk, r));
        }
        _ => {
            if !sc.wait_arrived(w, gate) {
                return sc.finish(cx.lin_budget, &mut cx.obs, &mut cx.samples, &mut cx.lin_states);
            }
            sc.pin_reg(w, 0);
            sc.mexec(if recv_side { Op::DropS } else { Op::DropR });
            sc.release(w, gate);
            sc.join(w);
            let r = sc.worker_result(w, 0);
            sc.expect(matches!(r, Some(Res::Closed) | Some(Res::SendClosed) | Some(Res::RecvClosed)), "C13", || format!("{:?} whose opposite side vanished at its deadline must report an error, got {:?}", wk, r));
        }
    }
    cell(cx, format!("timed/{}/{}/{}", opn(&wk), name, T::NAME));
    sc.finish(cx.lin_budget, &mut cx.obs, &mut cx.samples, &mut cx.lin_states)
}
fn space_timed(cs: &mut Vec<Case>, class: &'static str) {
    for cap in [Some(0), Some(1), Some(2)] {
        for a in 0..3 {
            for b in 0..8 {
                for d in 0..8 {
                    cs.push(Case { fam: "timed", class, cap, a, b, c: 0, d, seed: 0 });
                }
            }
        }
    }
}

// ---------------------------------------------------------------------------------------------
// C. progress: waiter kind x releasing event x phase of the waiter
// C'. a blocking operation issued at THREAD EXIT, from the destructor of one of the program's own thread-locals, on
// a thread that an earlier blocking operation has already parked: whatever the channel keeps per thread must still
// work there (thread-local destructors run in reverse order of first use). The case does not go through the
// recorder (the call happens inside a destructor): the thread writes down what the call returned.
struct AtExit(Option<Box<dyn FnOnce()>>);
impl Drop for AtExit {
    fn drop(&mut self) {
        if let Some(f) = self.0.take() {
            f()
        }
    }
}
thread_local! {
    static AT_EXIT: std::cell::RefCell<AtExit> = std::cell::RefCell::new(AtExit(None));
}
fn progress_thread_exit<T: Payload>(c: &Case, cx: &mut Ctx) -> Outcome {
    let recv_side = c.b % 2 == 0;
    let asyncf = c.d & 4 == 4;
    let l = payload::ledger();
    l.reset();
    let (s, r) = kverif::exec::new_chan::<T>(Some(0), asyncf);
    let out: Arc<std::sync::Mutex<Vec<String>>> = Arc::new(std::sync::Mutex::new(vec![]));
    let stage = Arc::new(std::sync::atomic::AtomicUsize::new(0));
    let mk = |t: u64| T::make(payload::FIRST_UNIQUE + t, payload::pattern(c.seed ^ t));
    let th = {
        let (s2, r2) = (s.clone_as(false), r.clone_as(false));
        let (out, stage) = (out.clone(), stage.clone());
        let v1 = mk(1);
        let v2 = mk(2);
        std::thread::Builder::new()
            .stack_size(256 * 1024)
            .spawn(move || {
                let out2 = out.clone();
                let stage2 = stage.clone();
                // 1. the program's own thread-local (with a destructor) is touched first ...
                let at_exit: Box<dyn FnOnce()> = if recv_side {
                    let r3 = r2.clone_as(false);
                    Box::new(move || {
                        stage2.store(3, Ordering::Release);
                        let res = std::panic::catch_unwind(std::panic::AssertUnwindSafe(|| r3.sy().recv().map(|v| v.tag()).map_err(|e| format!("{:?}", e))));
                        out2.lock().unwrap().push(format!("{:?}", res.map_err(|_| "PANICKED")));
                    })
                } else {
                    let s3 = s2.clone_as(false);
                    Box::new(move || {
                        stage2.store(3, Ordering::Release);
                        let res = std::panic::catch_unwind(std::panic::AssertUnwindSafe(|| s3.sy().send(v2).map_err(|e| format!("{:?}", e))));
                        out2.lock().unwrap().push(format!("{:?}", res.map_err(|_| "PANICKED")));
                    })
                };
                AT_EXIT.with(|a| a.borrow_mut().0 = Some(at_exit));
                // 2. ... then a blocking operation that really parks ...
                stage.store(1, Ordering::Release);
                let first = if recv_side {
                    drop(v1);
                    format!("{:?}", r2.sy().recv().map(|v| v.tag()).map_err(|e| format!("{:?}", e)))
                } else {
                    format!("{:?}", s2.sy().send(v1).map_err(|e| format!("{:?}", e)))
                };
                out.lock().unwrap().push(first);
                stage.store(2, Ordering::Release);
                // 3. ... and the thread ends: AT_EXIT's destructor issues the second blocking operation
            })
            .unwrap()
    };
    // main: complete the first operation once it is registered (and has had time to park), then the second one
    let waiters = |n: usize| if recv_side { s.sy().verif_waiters().0 == n } else { r.sy().verif_waiters().0 == n };
    let t0 = std::time::Instant::now();
    let grace = Duration::from_secs(20);
    let mut got: Vec<u64> = vec![];
    for round in 0..2 {
        while !waiters(1) {
            if t0.elapsed() > grace {
                let _ = s.sy().close();
                let _ = th.join();
                return Outcome::Inconclusive("the thread-exit scenario did not reach its blocking call".into());
            }
            std::thread::yield_now();
        }
        // let it get past its spin phase and park (steering only, never a verdict)
        std::thread::sleep(Duration::from_millis(if cfg!(miri) { 0 } else { 3 }));
        if recv_side {
            let v = mk(10 + round);
            let tag = v.tag();
            if !matches!(s.sy().try_send(v), Ok(true)) {
                let _ = s.sy().close();
                let _ = th.join();
                return Outcome::Violated(vec![("C06".into(), format!("try_send with a registered receiver (round {}) was not taken", round))]);
            }
            got.push(tag);
        } else {
            match r.sy().try_recv() {
                Ok(Some(v)) => got.push(v.tag()),
                o => {
                    let o = format!("{:?}", o.map(|x| x.map(|v| v.tag())));
                    let _ = s.sy().close();
                    let _ = th.join();
                    return Outcome::Violated(vec![("C06".into(), format!("try_recv with a registered sender (round {}) returned {}", round, o))]);
                }
            }
        }
    }
    // the thread (including its thread-local destructors) must finish now
    while !th.is_finished() {
        if t0.elapsed() > grace {
            return Outcome::Violated(vec![("C06".into(), format!("a blocking {} issued from a thread-local destructor at thread exit was completed by its peer but never returned (results so far: {:?})", if recv_side { "recv" } else { "send" }, out.lock().unwrap()))]);
        }
        std::thread::yield_now();
    }
    let _ = th.join();
    let res = out.lock().unwrap().clone();
    drop((s, r));
    cell(cx, format!("progress/thread-exit/{}/{}", if recv_side { "Recv" } else { "Send" }, T::NAME));
    let want: Vec<String> = if recv_side { got.iter().map(|t| format!("Ok({})", t)).collect() } else { vec!["Ok(())".to_string(), "Ok(Ok(()))".to_string()] };
    let ok = if recv_side { res.len() == 2 && res[0] == want[0] && res[1] == format!("Ok({})", want[1]) } else { res.len() == 2 && res[0] == want[0] && res[1] == want[1] };
    if !ok {
        return Outcome::Violated(vec![("C06".into(), format!("blocking {} calls of a thread, the second one issued from a thread-local destructor at thread exit: returned {:?}, the reference channel gives two successes (values handed over: {:?})", if recv_side { "recv" } else { "send" }, res, got))]);
    }
    if T::DROPS && l.bad.load(Ordering::Relaxed) != 0 {
        return Outcome::Violated(vec![("C05".into(), "thread-exit scenario: the ledger saw a double or invalid drop".into())]);
    }
    Outcome::Held
}

// L. lateness of timed operations. The ONE place where durations are compared: a timed operation that nobody serves
// must come back soon after its deadline. "Soon" is judged against a control thread that merely sleeps for the same
// duration at the same moment (machine load delays both alike), three rounds, and only a difference of more than
// max(100 ms, a third of the duration) in EVERY round counts (unchanged code: well under a millisecond).
fn fam_lateness<T: Payload>(c: &Case, cx: &mut Ctx) -> Outcome {
    if cfg!(miri) {
        return Outcome::Held;
    }
    let d_ms: u64 = [150, 400, 150, 400][c.a as usize % 4];
    let kind = c.b % 3; // 0 recv_timeout, 1 send_timeout, 2 send_option_timeout
    let asyncf = c.d & 4 == 4;
    let l = payload::ledger();
    l.reset();
    let d = Duration::from_millis(d_ms);
    let mut diffs: Vec<i64> = vec![];
    let mut results: Vec<String> = vec![];
    for round in 0..3u64 {
        let (s, r) = kverif::exec::new_chan::<T>(Some(0), asyncf);
        let go = Arc::new(AtomicBool::new(false));
        let ctl = {
            let go = go.clone();
            std::thread::spawn(move || {
                while !go.load(Ordering::Acquire) {
                    std::hint::spin_loop();
                }
                let t0 = std::time::Instant::now();
                std::thread::sleep(d);
                t0.elapsed().as_micros() as i64 - d.as_micros() as i64
            })
        };
        let op = {
            let go = go.clone();
            let v = T::make(payload::FIRST_UNIQUE + round, payload::pattern(round));
            std::thread::spawn(move || {
                while !go.load(Ordering::Acquire) {
                    std::hint::spin_loop();
                }
                let t0 = std::time::Instant::now();
                let res = match kind {
                    0 => {
                        drop(v);
                        format!("{:?}", r.sy().recv_timeout(d).map(|x| x.tag()))
                    }
                    1 => format!("{:?}", s.sy().send_timeout(v, d)),
                    _ => {
                        let mut o = Some(v);
                        format!("{:?}", s.sy().send_option_timeout(&mut o, d))
                    }
                };
                (t0.elapsed().as_micros() as i64 - d.as_micros() as i64, res, s, r)
            })
        };
        go.store(true, Ordering::Release);
        let late_c = ctl.join().unwrap();
        let (late_k, res, s, r) = op.join().unwrap();
        drop((s, r));
        results.push(res);
        diffs.push(late_k - late_c);
    }
    cell(cx, format!("lateness/{}ms/{}/{}", d_ms, ["RecvTimeout", "SendTimeout", "SendOptTimeout"][kind as usize], T::NAME));
    let bound = (d_ms as i64 * 1000 / 3).max(100_000);
    let best = *diffs.iter().min().unwrap();
    *cx.cells.entry("lateness/best-extra-lateness-us(max over cases)".to_string()).or_insert(0) = (*cx.cells.get("lateness/best-extra-lateness-us(max over cases)").unwrap_or(&0)).max(best.max(0) as u64);
    if results.iter().any(|x| !x.contains("Timeout")) {
        return Outcome::Violated(vec![("C13".into(), format!("a timed operation that nobody served ended with {:?}, the reference channel gives Timeout", results))]);
    }
    if best > bound {
        return Outcome::Violated(vec![(
            "C13".into(),
            format!("{} with a {} ms deadline that nobody served came back {} / {} / {} us later than a thread that merely slept for the same time, in three rounds (allowed: {} us): Timeout is not reported once the deadline has passed", ["recv_timeout", "send_timeout", "send_option_timeout"][kind as usize], d_ms, diffs[0], diffs[1], diffs[2], bound),
        )]);
    }
    Outcome::Held
}
fn space_lateness(cs: &mut Vec<Case>, class: &'static str) {
    for a in 0..2 {
        for b in 0..3 {
            for d in [0, 4] {
                cs.push(Case { fam: "lateness", class, cap: Some(0), a, b, c: 0, d, seed: 0 });
            }
        }
    }
}

fn fam_progress<T: Payload>(c: &Case, cx: &mut Ctx) -> Outcome {
    if c.a >= 8 {
        return progress_thread_exit::<T>(c, cx);
    }
    let kinds = [Op::Recv, Op::Send, Op::ARecv, Op::ASend, Op::RecvTimeout(LONG_US), Op::SendTimeout(LONG_US), Op::SendOptTimeout(LONG_US), Op::StreamNext];
    let wk = kinds[c.a as usize % 8];
    let recv_side = wk.is_recv();
    let release = c.b % 4; // 0 peer (sync flavour), 1 peer (async flavour), 2 close, 3 last opposite handle dropped
    let parks = matches!(wk, Op::Recv | Op::Send);
    let phase = if parks { c.c % 5 } else { c.c % 2 }; // 0 spin, 1 late, 2 held before the starvation CAS, 3 held before park, 4 parked + spurious unparks
    let mut sc = Scn::<T>::new(c.cap, c.d & 4 == 4, c.seed);
    main_flavour(&mut sc, release == 1, release == 1);
    if !recv_side {
        fill(&mut sc);
    }
    match phase {
        2 => fp::arm(1, WAIT_BEFORE_STARVE_CAS),
        3 => fp::arm(1, WAIT_BEFORE_PARK),
        _ => {}
    }
    let w = sc.spawn(if recv_side { Side::R } else { Side::S }, c.d & 1 == 1, vec![wk]);
    if !sc.wait_registered(w, 0, 1) {
        return sc.finish(cx.lin_budget, &mut cx.obs, &mut cx.samples, &mut cx.lin_states);
    }
    let pname = ["spinning", "late", "held-before-starve-cas", "held-before-park", "parked+spurious-unpark"][phase as usize];
    match phase {
        1 => {
            if parks {
                sc.wait_hits(w, WAIT_BEFORE_PARK, 1);
            }
            std::thread::sleep(Duration::from_millis(3));
        }
        2 => {
            sc.wait_arrived(w, WAIT_BEFORE_STARVE_CAS);
        }
        3 => {
            sc.wait_arrived(w, WAIT_BEFORE_PARK);
        }
        4 => {
            sc.wait_hits(w, WAIT_BEFORE_PARK, 1);
            std::thread::sleep(Duration::from_millis(1));
            if let Some(t) = sc.worker_thread(w) {
                for _ in 0..3 {
                    t.unpark();
                    std::thread::sleep(Duration::from_micros(300));
                }
            }
            sc.wait_hits(w, WAIT_AFTER_PARK, 1);
            sc.expect(!sc.worker_finished(w), "C06", || "a spurious unpark made a blocked operation return".into());
        }
        _ => {}
    }
    let rname = ["peer-sync", "peer-async", "close", "last-opposite-handle-dropped"][release as usize];
    match release {
        0 => {
            sc.mexec(if recv_side { Op::TrySend } else { Op::TryRecv });
        }
        1 => {
            sc.mexec(if recv_side { Op::ASend } else { Op::ARecv });
        }
        2 => {
            sc.mexec(if c.d & 2 == 2 { Op::CloseR } else { Op::CloseS });
        }
        _ => {
            sc.mexec(if recv_side { Op::DropS } else { Op::DropR });
        }
    }
    if phase == 2 {
        sc.release(w, WAIT_BEFORE_STARVE_CAS);
    }
    if phase == 3 {
        sc.release(w, WAIT_BEFORE_PARK);
    }
    // the stuck detector inside join is the oracle
    sc.join(w);
    let r = sc.worker_result(w, 0);
    if release < 2 {
        sc.expect(matches!(r, Some(Res::Ok) | Some(Res::Val(_))), "C06", || format!("blocked {:?} must complete once its counterpart arrived, got {:?}", wk, r));
    } else {
        sc.expect(matches!(r, Some(Res::Closed) | Some(Res::SendClosed) | Some(Res::RecvClosed) | Some(Res::NoneV)), "C06", || format!("blocked {:?} must be released with an error by {}, got {:?}", wk, rname, r));
    }
    if !recv_side {
        for _ in 0..3 {
            sc.mexec(Op::TryRecv);
        }
    }
    cell(cx, format!("progress/{}/{}/{}", opn(&wk), rname, pname));
    sc.finish(cx.lin_budget, &mut cx.obs, &mut cx.samples, &mut cx.lin_states)
}
fn space_progress(cs: &mut Vec<Case>, class: &'static str) {
    // thread-exit cases (a == 8): side b, flavour d
    for b in 0..2 {
        for d in [0, 4] {
            for _ in 0..4 {
                cs.push(Case { fam: "progress", class, cap: Some(0), a: 8, b, c: 0, d, seed: 0 });
            }
        }
    }
    for cap in [Some(0), Some(1)] {
        for a in 0..8 {
            for b in 0..4 {
                for c in 0..5 {
                    for d in [0, 1, 2, 5] {
                        cs.push(Case { fam: "progress", class, cap, a, b, c, d, seed: 0 });
                    }
                }
            }
        }
    }
}

// ---------------------------------------------------------------------------------------------
// D. dropping a future at every stage of its life, at every position in the wait list
fn fam_futdrop<T: Payload>(c: &Case, cx: &mut Ctx) -> Outcome {
    let recv_kind = c.a % 2 == 0;
    let stage = c.b % 6; // 0 never polled, 1 pending, 2 claimed by a peer, 3 completed but not read, 4 completed, 5 dropped while close() is terminating the waiters
    let before = (c.c % 3) as usize; // waiters registered before the future
    let after = ((c.c / 3) % 2) as usize; // and after it
    let mut sc = Scn::<T>::new(c.cap, c.d & 4 == 4, c.seed);
    if !recv_kind {
        fill(&mut sc);
    }
    let side = if recv_kind { Side::R } else { Side::S };
    let okinds: [Op; 2] = if recv_kind { [Op::Recv, Op::ARecv] } else { [Op::Send, Op::ASend] };
    let mut others = vec![];
    let mut nreg = 0;
    for i in 0..before {
        let w = sc.spawn(side, i % 2 == 1, vec![okinds[(i + c.d as usize) % 2]]);
        nreg += 1;
        if !sc.wait_registered(w, 0, nreg) {
            return sc.finish(cx.lin_budget, &mut cx.obs, &mut cx.samples, &mut cx.lin_states);
        }
        others.push(w);
    }
    let sname = ["never-polled", "pending", "claimed", "completed-unread", "completed", "while-close-terminates"][stage as usize];
    let mut fut_registered = false;
    if stage == 0 {
        sc.mexec(if recv_kind { Op::ARecvDrop(0) } else { Op::ASendDrop(0) });
    } else {
        // the future borrows one handle for its whole life: give main a second one to keep working with
        sc.mexec(if recv_kind { Op::CloneR(c.d & 2 == 2) } else { Op::CloneS(c.d & 2 == 2) });
        let p = if recv_kind { sc.main.rfut_start(0) } else { sc.main.sfut_start(0) };
        if p.is_pending() {
            sc.pin_main_reg();
            nreg += 1;
            fut_registered = true;
        }
    }
    for i in 0..after {
        let w = sc.spawn(side, i % 2 == 0, vec![okinds[(i + 1 + c.d as usize) % 2]]);
        nreg += 1;
        if !sc.wait_registered(w, 0, nreg) {
            return sc.finish(cx.lin_budget, &mut cx.obs, &mut cx.samples, &mut cx.lin_states);
        }
        others.push(w);
    }
    let abw0 = sc.hits()[ABW_ENTER as usize];
    let peer_op = if recv_kind { Op::TrySend } else { Op::TryRecv };
    // serve the waiters registered before the future so that the future is at the head
    let serve_before = |sc: &mut Scn<T>| {
        for _ in 0..before {
            sc.mexec(peer_op);
        }
    };
    if fut_registered {
        match stage {
            1 => {
                if recv_kind { sc.main.rfut_drop() } else { sc.main.sfut_drop() }
                sc.expect(sc.waiters() == nreg - 1, "C15", || "dropping a pending future did not remove exactly its own wait-list entry".into());
            }
            2 => {
                serve_before(&mut sc);
                let pt = if recv_kind { [SEND_ENTER, SEND_WRITTEN, WAKE_ASYNC_CLONED][c.d as usize % 3] } else { [RECV_ENTER, RECV_READ, WAKE_ASYNC_CLONED][c.d as usize % 3] };
                let prole = sc.role_of(others.len());
                fp::arm(prole, pt);
                let p = sc.spawn(if recv_kind { Side::S } else { Side::R }, c.d & 1 == 1, vec![peer_op]);
                let refill_inside_lock = !recv_kind && c.cap != Some(0);
                if !sc.wait_arrived(p, pt) {
                    return sc.finish(cx.lin_budget, &mut cx.obs, &mut cx.samples, &mut cx.lin_states);
                }
                sc.pin_reg(p, 0);
                // the owner drops while the peer owns the signal: the drop has to wait for the peer.
                // Decided logically, not by time: the helper releases the frozen peer only once the dropping
                // thread has been seen inside async_blocking_wait - or once the drop has already returned,
                // which is the violation (the future's memory is gone while the peer is still going to use it).
                let h0 = sc.hits0;
                let dropped = Arc::new(AtomicBool::new(false));
                let d2 = dropped.clone();
                let rel = if refill_inside_lock {
                    // the peer is frozen inside the channel lock: the drop cannot even look at the wait list
                    release_when(prole, pt, Duration::from_millis(3), || false)
                } else {
                    release_when(prole, pt, Duration::from_secs(100_000_000), move || fp::hits_delta(&h0)[ABW_ENTER as usize] > abw0 || d2.load(Ordering::Acquire))
                };
                if recv_kind { sc.main.rfut_drop() } else { sc.main.sfut_drop() }
                let waited = sc.hits()[ABW_ENTER as usize] > abw0;
                dropped.store(true, Ordering::Release);
                rel.join().unwrap();
                if !refill_inside_lock {
                    sc.expect(waited, "C15", || "a future was dropped while a peer had claimed it, and the drop returned without waiting for that peer (no async_blocking_wait): the peer is left with a pointer into freed memory".into());
                }
                sc.join(p);
                let pr = sc.worker_result(p, 0);
                sc.expect(matches!(pr, Some(Res::True) | Some(Res::Val(_))), "C15", || format!("the peer that had claimed the future must complete normally, got {:?}", pr));
                others.push(p);
            }
            5 => {
                // a closer is frozen in the middle of terminating the waiters (inside the channel lock in this
                // code base) while the owner drops its pending future: the drop has to come out consistent whatever
                // it finds - on this tree it simply waits for the lock. The helper releases the closer when the
                // dropping thread is seen waiting for a peer, when the drop has returned, or after a few ms (a
                // progress aid, not a verdict).
                let prole = sc.role_of(others.len());
                fp::arm(prole, TERM_ENTER);
                let p = sc.spawn(if c.d & 1 == 1 { Side::S } else { Side::R }, false, vec![if c.d & 1 == 1 { Op::CloseS } else { Op::CloseR }]);
                if !sc.wait_arrived(p, TERM_ENTER) {
                    return sc.finish(cx.lin_budget, &mut cx.obs, &mut cx.samples, &mut cx.lin_states);
                }
                let h0 = sc.hits0;
                let dropped = Arc::new(AtomicBool::new(false));
                let d2 = dropped.clone();
                let rel = release_when(prole, TERM_ENTER, Duration::from_millis(if cfg!(miri) { 200 } else { 4 }), move || fp::hits_delta(&h0)[ABW_ENTER as usize] > abw0 || d2.load(Ordering::Acquire));
                if recv_kind { sc.main.rfut_drop() } else { sc.main.sfut_drop() }
                dropped.store(true, Ordering::Release);
                rel.join().unwrap();
                sc.join(p);
                others.push(p);
            }
            3 => {
                serve_before(&mut sc);
                let p = sc.spawn(if recv_kind { Side::S } else { Side::R }, c.d & 1 == 1, vec![peer_op]);
                sc.join(p);
                if recv_kind { sc.main.rfut_drop() } else { sc.main.sfut_drop() }
            }
            _ => {
                serve_before(&mut sc);
                let p = sc.spawn(if recv_kind { Side::S } else { Side::R }, c.d & 1 == 1, vec![peer_op]);
                sc.join(p);
                let r = if recv_kind { sc.main.rfut_poll(1) } else { sc.main.sfut_poll(1) };
                sc.expect(r.is_ready(), "C16", || "a completed future polled again stayed Pending".into());
                if r.is_pending() {
                    if recv_kind { sc.main.rfut_drop() } else { sc.main.sfut_drop() }
                }
            }
        }
    }
    // later operations must go to the remaining waiters, in their order, never into the dropped future
    for _ in 0..(before + after + 1) {
        sc.mexec(peer_op);
    }
    for w in others.clone() {
        if sc.worker_finished(w) {
            sc.join(w);
        }
    }
    cell(cx, format!("futdrop/{}/{}/before{}-after{}/{}", if recv_kind { "recv" } else { "send" }, sname, before, after, T::NAME));
    sc.finish(cx.lin_budget, &mut cx.obs, &mut cx.samples, &mut cx.lin_states)
}
fn space_futdrop(cs: &mut Vec<Case>, class: &'static str) {
    for cap in [Some(0), Some(1)] {
        for a in 0..2 {
            for b in 0..6 {
                for c in 0..6 {
                    for d in 0..6 {
                        cs.push(Case { fam: "futdrop", class, cap, a, b, c, d, seed: 0 });
                    }
                }
            }
        }
    }
}

// ---------------------------------------------------------------------------------------------
// E. polling contract across threads: waker replaced while a peer completes
fn fam_wakerace<T: Payload>(c: &Case, cx: &mut Ctx) -> Outcome {
    let recv_kind = c.a % 2 == 0;
    let variant = c.b % 3; // 0 scripted: poller frozen in the waker-refresh window; 1 free race; 2 spurious polls then completion
    let mut sc = Scn::<T>::new(c.cap, c.d & 4 == 4, c.seed);
    if !recv_kind {
        fill(&mut sc);
    }
    sc.mexec(if recv_kind { Op::CloneR(c.d & 2 == 2) } else { Op::CloneS(c.d & 2 == 2) });
    let p0 = if recv_kind { sc.main.rfut_start(0) } else { sc.main.sfut_start(0) };
    if p0.is_ready() {
        sc.inconclusive = Some("future completed at once".into());
        return sc.finish(cx.lin_budget, &mut cx.obs, &mut cx.samples, &mut cx.lin_states);
    }
    sc.pin_main_reg();
    let peer_op = if recv_kind { Op::TrySend } else { Op::TryRecv };
    let go = Arc::new(AtomicBool::new(false));
    let p = sc.spawn_gated(if recv_kind { Side::S } else { Side::R }, c.d & 1 == 1, vec![peer_op], Some(go.clone()));
    let mut last = 0usize;
    let poll = |sc: &mut Scn<T>, w: usize| -> Poll<()> {
        if recv_kind { sc.main.rfut_poll(w) } else { sc.main.sfut_poll(w) }
    };
    let mut ready = false;
    match variant {
        0 => {
            // freeze the poller inside register_waker (new waker #1), let the peer run meanwhile, then release
            fp::arm(MAIN_ROLE, REGISTER_WAKER);
            let go2 = go.clone();
            let polled = Arc::new(AtomicBool::new(false));
            let polled2 = polled.clone();
            let coord = std::thread::spawn(move || {
                // wait until the poller sits in the window (or its poll returned without going there)
                let mut arrived = false;
                let mut n = 0u32;
                loop {
                    if fp::is_arrived(MAIN_ROLE, REGISTER_WAKER) {
                        arrived = true;
                        break;
                    }
                    if polled2.load(Ordering::Acquire) {
                        break;
                    }
                    n += 1;
                    if n < 100 || cfg!(miri) {
                        std::thread::yield_now();
                    } else {
                        std::thread::sleep(Duration::from_micros(50));
                    }
                }
                go2.store(true, Ordering::Release);
                // give the peer time to do whatever it can do while the poller sits there
                std::thread::sleep(Duration::from_millis(if cfg!(miri) { 0 } else { 3 }));
                for _ in 0..200 {
                    std::thread::yield_now();
                }
                fp::release(MAIN_ROLE, REGISTER_WAKER);
                arrived
            });
            last = 1;
            ready = poll(&mut sc, 1).is_ready();
            polled.store(true, Ordering::Release);
            let arrived = coord.join().unwrap();
            go.store(true, Ordering::Release);
            if !arrived {
                sc.inconclusive = Some("poll with a new waker never reached register_waker".into());
            }
        }
        1 => {
            go.store(true, Ordering::Release);
            for i in 0..6 {
                last = (i + 1) % 3;
                if poll(&mut sc, last).is_ready() {
                    ready = true;
                    break;
                }
                std::thread::yield_now();
            }
        }
        _ => {
            for i in 0..4 {
                last = i % 2;
                let r = poll(&mut sc, last);
                sc.expect(r.is_pending(), "C16", || "a spurious poll of a pending future returned Ready although nothing was sent".into());
            }
            go.store(true, Ordering::Release);
        }
    }
    sc.join(p);
    let pr = sc.worker_result(p, 0);
    let delivered = matches!(pr, Some(Res::True) | Some(Res::Val(_)));
    if !ready && delivered {
        // the peer completed the pending future: the waker supplied by the LAST poll must have fired
        let fired = sc.main.wakers[last].fired();
        let all: Vec<usize> = sc.main.wakers.iter().map(|w| w.fired()).collect();
        sc.expect(fired >= 1, "C16", || format!("the future was completed by a peer while pending, but the most recently supplied waker #{} never fired (fired: {:?}): lost wake-up", last, all));
        let r = poll(&mut sc, last);
        sc.expect(r.is_ready(), "C06", || "the future stays Pending although its peer has completed it".into());
    } else if !ready {
        if recv_kind { sc.main.rfut_drop() } else { sc.main.sfut_drop() }
    }
    if !recv_kind {
        for _ in 0..3 {
            sc.mexec(Op::TryRecv);
        }
    }
    cell(cx, format!("wakerace/{}/{}/{}", if recv_kind { "recv" } else { "send" }, ["frozen-in-waker-refresh", "free-race", "spurious-polls"][variant as usize], T::NAME));
    sc.finish(cx.lin_budget, &mut cx.obs, &mut cx.samples, &mut cx.lin_states)
}
fn space_wakerace(cs: &mut Vec<Case>, class: &'static str) {
    for cap in [Some(0), Some(1)] {
        for a in 0..2 {
            for b in 0..3 {
                for d in 0..6 {
                    cs.push(Case { fam: "wakerace", class, cap, a, b, c: 0, d, seed: 0 });
                }
            }
        }
    }
}

// ---------------------------------------------------------------------------------------------
// F. non-blocking calls while a peer is frozen in the middle of its own operation
fn fam_frozen<T: Payload>(c: &Case, cx: &mut Ctx) -> Outcome {
    // freeze points outside the lock (a..): reached by a try_send into a blocked receiver / try_recv from a blocked sender
    let outs_r = [SEND_ENTER, SEND_WRITTEN, WAKE_SYNC_BEFORE_CAS, WAKE_ASYNC_CLONED, WAKE_ASYNC_BEFORE_WAKE, WAKE_SYNC_STARVED, WAKE_SYNC_BEFORE_UNPARK];
    let outs_s = [RECV_ENTER, RECV_READ, WAKE_SYNC_BEFORE_CAS, WAKE_ASYNC_CLONED, WAKE_ASYNC_BEFORE_WAKE];
    let mode = c.a % 4; // 0 outside, blocked receiver; 1 outside, blocked sender; 2 inside the lock (close terminating a waiter); 3 inside the lock (drain/refill reading a blocked sender)
    let mut sc = Scn::<T>::new(c.cap, c.d & 4 == 4, c.seed);
    let nb = [Op::TrySend, Op::TrySendOpt, Op::TrySendRt, Op::TrySendOptRt, Op::TryRecv, Op::TryRecvRt, Op::Drain];
    let rt = [Op::TrySendRt, Op::TrySendOptRt, Op::TryRecvRt];
    let pname;
    match mode {
        0 | 1 => {
            let recv_waiter = mode == 0;
            let pts: &[u32] = if recv_waiter { &outs_r } else { &outs_s };
            let pt = pts[c.b as usize % pts.len()];
            let async_waiter = matches!(pt, WAKE_ASYNC_CLONED | WAKE_ASYNC_BEFORE_WAKE);
            let starved = matches!(pt, WAKE_SYNC_STARVED | WAKE_SYNC_BEFORE_UNPARK);
            if !recv_waiter {
                if sc.cap != Some(0) {
                    sc.inconclusive = Some("needs capacity 0".into());
                    return sc.finish(cx.lin_budget, &mut cx.obs, &mut cx.samples, &mut cx.lin_states);
                }
            }
            let wk = match (recv_waiter, async_waiter) {
                (true, false) => Op::Recv,
                (true, true) => Op::ARecv,
                (false, false) => Op::Send,
                (false, true) => Op::ASend,
            };
            let w = sc.spawn(if recv_waiter { Side::R } else { Side::S }, c.d & 1 == 1, vec![wk]);
            if !sc.wait_registered(w, 0, 1) {
                return sc.finish(cx.lin_budget, &mut cx.obs, &mut cx.samples, &mut cx.lin_states);
            }
            if starved {
                // let the waiter go to sleep first so the peer takes the starvation path
                sc.wait_hits(w, WAIT_BEFORE_PARK, 1);
            }
            fp::arm(2, pt);
            let p = sc.spawn(if recv_waiter { Side::S } else { Side::R }, c.d & 2 == 2, vec![if recv_waiter { Op::TrySend } else { Op::TryRecv }]);
            if !sc.wait_arrived(p, pt) {
                return sc.finish(cx.lin_budget, &mut cx.obs, &mut cx.samples, &mut cx.lin_states);
            }
            sc.pin_reg(p, 0);
            // every other thread is now suspended in the middle of the hand-off: all seven must return
            for op in nb {
                sc.mexec(op);
                cell(cx, format!("frozen/outside-lock@{}/{}", POINT_NAMES[pt as usize], opn(&op)));
            }
            sc.release(p, pt);
            sc.join(p);
            sc.join(w);
            pname = POINT_NAMES[pt as usize];
        }
        2 => {
            let w = sc.spawn(Side::R, c.d & 1 == 1, vec![if c.b % 2 == 0 { Op::Recv } else { Op::ARecv }]);
            if !sc.wait_registered(w, 0, 1) {
                return sc.finish(cx.lin_budget, &mut cx.obs, &mut cx.samples, &mut cx.lin_states);
            }
            // (its handle is cloned now: cloning needs the lock the closer is about to be frozen in)
            let dgo = Arc::new(AtomicBool::new(false));
            let dw = sc.spawn_gated(Side::R, c.d & 2 == 2, vec![Op::Drain], Some(dgo.clone()));
            fp::arm(3, TERM_ENTER);
            let p = sc.spawn(Side::S, false, vec![Op::CloseS]);
            if !sc.wait_arrived(p, TERM_ENTER) {
                return sc.finish(cx.lin_budget, &mut cx.obs, &mut cx.samples, &mut cx.lin_states);
            }
            // the closer is frozen while HOLDING the channel lock: the realtime variants must give up at once
            for op in rt {
                sc.mexec(op);
                let r = sc.main_result();
                sc.expect(matches!(r, Res::False | Res::NoneV), "C14", || format!("{:?} while another thread is stalled inside the channel lock must report 'not done', got {:?}", op, r));
                cell(cx, format!("frozen/inside-lock@TERM_ENTER/{}", opn(&op)));
            }
            // drain_into is not a realtime variant: it has to look at the channel, so it cannot return while the
            // lock is held by the frozen thread (only this direction is judged: returning is the violation)
            dgo.store(true, Ordering::Release);
            if !cfg!(miri) {
                std::thread::sleep(Duration::from_millis(4));
            }
            let early = sc.worker_finished(dw);
            sc.expect(!early, "C19", || "drain_into returned while another thread was frozen inside the channel lock: it cannot have looked at the channel".to_string());
            cell(cx, "frozen/inside-lock@TERM_ENTER/Drain-waits".to_string());
            sc.release(p, TERM_ENTER);
            sc.join(p);
            sc.join(dw);
            sc.join(w);
            pname = "TERM_ENTER(in lock)";
        }
        _ => {
            fill(&mut sc);
            let w = sc.spawn(Side::S, c.d & 1 == 1, vec![if c.b % 2 == 0 { Op::Send } else { Op::ASend }]);
            if !sc.wait_registered(w, 0, 1) {
                return sc.finish(cx.lin_budget, &mut cx.obs, &mut cx.samples, &mut cx.lin_states);
            }
            if sc.cap == Some(0) {
                sc.inconclusive = Some("needs a buffer".into());
                return sc.finish(cx.lin_budget, &mut cx.obs, &mut cx.samples, &mut cx.lin_states);
            }
            let dgo = Arc::new(AtomicBool::new(false));
            let dw = sc.spawn_gated(Side::R, c.d & 2 == 2, vec![Op::Drain], Some(dgo.clone()));
            fp::arm(3, RECV_ENTER);
            // refill (recv from a full buffer) or drain: both read the blocked sender under the lock
            let p = sc.spawn(Side::R, false, vec![if c.b % 4 < 2 { Op::Drain } else { Op::TryRecv }]);
            if !sc.wait_arrived(p, RECV_ENTER) {
                return sc.finish(cx.lin_budget, &mut cx.obs, &mut cx.samples, &mut cx.lin_states);
            }
            sc.pin_reg(p, 0);
            for op in rt {
                sc.mexec(op);
                let r = sc.main_result();
                sc.expect(matches!(r, Res::False | Res::NoneV), "C14", || format!("{:?} while another thread is stalled inside the channel lock must report 'not done', got {:?}", op, r));
                cell(cx, format!("frozen/inside-lock@RECV_ENTER/{}", opn(&op)));
            }
            dgo.store(true, Ordering::Release);
            if !cfg!(miri) {
                std::thread::sleep(Duration::from_millis(4));
            }
            let early = sc.worker_finished(dw);
            sc.expect(!early, "C19", || "drain_into returned while another thread was frozen inside the channel lock: it cannot have looked at the channel".to_string());
            cell(cx, "frozen/inside-lock@RECV_ENTER/Drain-waits".to_string());
            sc.release(p, RECV_ENTER);
            sc.join(p);
            sc.join(dw);
            sc.join(w);
            for _ in 0..3 {
                sc.mexec(Op::TryRecv);
            }
            pname = "RECV_ENTER(in lock)";
        }
    }
    let _ = pname;
    sc.finish(cx.lin_budget, &mut cx.obs, &mut cx.samples, &mut cx.lin_states)
}
fn space_frozen(cs: &mut Vec<Case>, class: &'static str) {
    for cap in [Some(0), Some(1)] {
        for a in 0..4 {
            for b in 0..7 {
                for d in [0, 1, 2, 3, 5] {
                    if (a == 1 && cap != Some(0)) || (a == 3 && cap == Some(0)) || (a == 1 && b >= 5) || (a >= 2 && b >= 4) {
                        continue;
                    }
                    cs.push(Case { fam: "frozen", class, cap, a, b, c: 0, d, seed: 0 });
                }
            }
        }
    }
}

// ---------------------------------------------------------------------------------------------
// G. drain_into: buffer fill x blocked senders (mixed kinds, known order) or blocked receivers
fn fam_drain<T: Payload>(c: &Case, cx: &mut Ctx) -> Outcome {
    let mut sc = Scn::<T>::new(c.cap, c.d & 4 == 4, c.seed);
    main_flavour(&mut sc, c.d & 2 == 2, c.d & 2 == 2);
    let receivers_variant = c.a % 3 == 2;
    if receivers_variant {
        let k = 1 + (c.b % 3) as usize;
        let kinds = [Op::Recv, Op::ARecv, Op::StreamNext];
        let mut ws = vec![];
        for i in 0..k {
            let w = sc.spawn(Side::R, i % 2 == 0, vec![kinds[(i + c.c as usize) % 3]]);
            if !sc.wait_registered(w, 0, i + 1) {
                return sc.finish(cx.lin_budget, &mut cx.obs, &mut cx.samples, &mut cx.lin_states);
            }
            ws.push(w);
        }
        sc.mexec(Op::Drain);
        let r = sc.main_result();
        sc.expect(r == Res::Drained(vec![]), "C19", || format!("drain_into with only receivers waiting must take nothing, got {:?}", r));
        sc.expect(sc.waiters() == k, "C19", || "drain_into disturbed the blocked receivers".into());
        for _ in 0..k {
            sc.mexec(Op::TrySend);
        }
        for w in ws {
            sc.join(w);
        }
        cell(cx, format!("drain/blocked-receivers-{}/{}", k, T::NAME));
    } else {
        let full = c.a % 3 == 0;
        let nfill = match (sc.cap, full) {
            (Some(n), true) => n,
            (Some(n), false) => n.saturating_sub(1),
            (None, _) => (c.b % 4) as usize,
        };
        for _ in 0..nfill {
            sc.mexec(Op::TrySend);
        }
        let j = if full && sc.cap.is_some() { (c.b % 4) as usize } else { 0 };
        let kinds = ws_kinds();
        let mut ws = vec![];
        for i in 0..j {
            let w = sc.spawn(Side::S, i % 2 == 1, vec![kinds[(i + c.c as usize) % 4]]);
            if !sc.wait_registered(w, 0, i + 1) {
                return sc.finish(cx.lin_budget, &mut cx.obs, &mut cx.samples, &mut cx.lin_states);
            }
            ws.push(w);
        }
        sc.mexec(Op::Drain);
        let r = sc.main_result();
        if let Res::Drained(v) = &r {
            let vl = v.len();
            sc.expect(vl == nfill + j, "C19", || format!("drain_into must take the {} buffered values and the {} blocked senders' values, took {}", nfill, j, vl));
        } else {
            sc.fail("C19", format!("drain_into on an open channel failed: {:?}", r));
        }
        for w in ws {
            sc.join(w);
            let wr = sc.worker_result(w, 0);
            sc.expect(wr == Some(Res::Ok), "C19", || format!("a sender whose value drain_into took must be released with success, got {:?}", wr));
        }
        sc.mexec(Op::Drain);
        cell(cx, format!("drain/buffered-{}+blocked-senders-{}/{}", nfill, j, T::NAME));
    }
    // on a closed channel: fails, takes nothing
    if c.d & 1 == 1 {
        sc.mexec(Op::TrySend);
        sc.mexec(Op::CloseR);
        sc.mexec(Op::Drain);
        let r = sc.main_result();
        sc.expect(r == Res::Closed, "C19", || format!("drain_into on a closed channel must fail, got {:?}", r));
    }
    sc.finish(cx.lin_budget, &mut cx.obs, &mut cx.samples, &mut cx.lin_states)
}
fn space_drain(cs: &mut Vec<Case>, class: &'static str) {
    for cap in [Some(0), Some(1), Some(2), None] {
        for a in 0..3 {
            for b in 0..4 {
                for c in 0..4 {
                    for d in [0, 1, 2, 7] {
                        cs.push(Case { fam: "drain", class, cap, a, b, c, d, seed: 0 });
                    }
                }
            }
        }
    }
}

// ---------------------------------------------------------------------------------------------
// H. FIFO across buffer + blocked senders with a cancellation from the middle
fn fam_fifo<T: Payload>(c: &Case, cx: &mut Ctx) -> Outcome {
    let mut sc = Scn::<T>::new(c.cap, c.d & 4 == 4, c.seed);
    fill(&mut sc);
    let n = 2 + (c.a % 3) as usize; // blocked senders
    let mid = 1 + (c.b as usize % (n - 1)).min(n - 2).max(0);
    // 0 send_timeout expiring, 1 send_option_timeout expiring, 2 send future dropped (under Miri only the last:
    // a real-time deadline long enough for Miri to build the state would dominate the run)
    let cancel_kind = if cfg!(miri) { 2 } else { c.c % 3 };
    let kinds = ws_kinds();
    let mut ws = vec![];
    let mut reg = 0;
    let mut cancelled_w = None;
    for i in 0..n {
        if i == mid {
            match cancel_kind {
                0 | 1 => {
                    let w = sc.spawn(Side::S, false, vec![if cancel_kind == 0 { Op::SendTimeout(if cfg!(miri) { 400_000 } else { 30_000 }) } else { Op::SendOptTimeout(if cfg!(miri) { 400_000 } else { 30_000 }) }]);
                    reg += 1;
                    if !sc.wait_registered(w, 0, reg) {
                        return sc.finish(cx.lin_budget, &mut cx.obs, &mut cx.samples, &mut cx.lin_states);
                    }
                    cancelled_w = Some(w);
                }
                _ => {
                    sc.mexec(Op::CloneS(true));
                    if sc.main.sfut_start(0).is_pending() {
                        sc.pin_main_reg();
                        reg += 1;
                    }
                }
            }
        } else {
            let w = sc.spawn(Side::S, i % 2 == 1, vec![kinds[(i + c.d as usize) % 4]]);
            reg += 1;
            if !sc.wait_registered(w, 0, reg) {
                return sc.finish(cx.lin_budget, &mut cx.obs, &mut cx.samples, &mut cx.lin_states);
            }
            ws.push(w);
        }
    }
    // cancel the one in the middle
    match cancelled_w {
        Some(w) => {
            sc.join(w);
            let r = sc.worker_result(w, 0);
            sc.expect(r == Some(Res::Timeout), "C13", || format!("timed send in the middle of the queue must time out, got {:?}", r));
        }
        None => {
            if sc.main.has_held_s() {
                sc.main.sfut_drop();
            }
        }
    }
    sc.expect(sc.waiters() == n - 1, "C15", || format!("after cancelling one of {} blocked senders the wait list must hold {}", n, n - 1));
    // consume everything with the chosen receive variant; the linearizability check (registration order pinned) decides the exact order
    let rk = pr_kinds()[c.d as usize % 7];
    let mut total = sc.cap.unwrap_or(0) + n - 1;
    let mut got = 0;
    // after every receive a late-comer tries to get in (non-blocking): while senders are still blocked the freed
    // place belongs to the oldest of them (refill), so the late-comer must be refused; whatever it is told, the
    // reference channel has to be able to explain it, and if it is accepted it must come out after everybody else
    let late = c.b % 2 == 0;
    for _ in 0..(2 * total + 6) {
        if got >= total {
            break;
        }
        sc.mexec(rk);
        match sc.main_result() {
            Res::Val(_) => got += 1,
            Res::Drained(v) => got += v.len(),
            _ => {}
        }
        if late && got < total && sc.waiters() > 0 {
            sc.mexec(Op::TrySend);
            if sc.main_result() == Res::True {
                total += 1;
            }
        }
    }
    sc.expect(got == total, "C01", || format!("{} values were accepted/blocked but only {} could be received", total, got));
    for w in ws {
        sc.join(w);
    }
    cell(cx, format!("fifo/cap{}+blocked{}-cancel{}@{}/{}/{}", kverif::exec::cap_name(sc.cap), n, ["timeout", "option-timeout", "future-drop"][cancel_kind as usize], mid, opn(&rk), T::NAME));
    sc.finish(cx.lin_budget, &mut cx.obs, &mut cx.samples, &mut cx.lin_states)
}
fn space_fifo(cs: &mut Vec<Case>, class: &'static str) {
    for cap in [Some(0), Some(1), Some(2)] {
        for a in 0..3 {
            for b in 0..3 {
                for c in 0..3 {
                    for d in 0..7 {
                        cs.push(Case { fam: "fifo", class, cap, a, b, c, d, seed: 0 });
                    }
                }
            }
        }
    }
}

// ---------------------------------------------------------------------------------------------
// I. close / disconnect against every kind of blocked waiter
/// Two threads close one fresh channel at the same instant, `rounds` times (a new channel each round).
/// Returns (rounds in which both close() calls returned Ok, rounds in which neither did, rounds).
fn racing_closes(cap: Option<usize>, d: u32) -> (usize, usize, usize) {
    use std::sync::atomic::{AtomicU8, AtomicUsize};
    let rounds: usize = if cfg!(miri) { 3 } else { 2000 };
    let mk = || match cap {
        Some(n) => kanal::bounded::<u8>(n),
        None => kanal::unbounded::<u8>(),
    };
    let chans: Arc<Vec<(kanal::Sender<u8>, kanal::Receiver<u8>)>> = Arc::new((0..rounds).map(|_| mk()).collect());
    let oks: Arc<Vec<AtomicU8>> = Arc::new((0..rounds).map(|_| AtomicU8::new(0)).collect());
    let arrive = Arc::new(AtomicUsize::new(0));
    let mut hs = vec![];
    for t in 0..2u32 {
        let (chans, oks, arrive) = (chans.clone(), oks.clone(), arrive.clone());
        let via_receiver = (d >> t) & 1 == 1;
        hs.push(std::thread::spawn(move || {
            for r in 0..rounds {
                arrive.fetch_add(1, Ordering::AcqRel);
                let mut spins = 0u32;
                while arrive.load(Ordering::Acquire) < 2 * (r + 1) {
                    spins += 1;
                    if cfg!(miri) || spins % 256 == 0 {
                        std::thread::yield_now();
                    } else {
                        std::hint::spin_loop();
                    }
                }
                let ok = if via_receiver { chans[r].1.close().is_ok() } else { chans[r].0.close().is_ok() };
                if ok {
                    oks[r].fetch_add(1, Ordering::AcqRel);
                }
            }
        }));
    }
    for h in hs {
        let _ = h.join();
    }
    let both = oks.iter().filter(|o| o.load(Ordering::Acquire) == 2).count();
    let none = oks.iter().filter(|o| o.load(Ordering::Acquire) == 0).count();
    (both, none, rounds)
}

fn fam_closedisc<T: Payload>(c: &Case, cx: &mut Ctx) -> Outcome {
    let mut sc = Scn::<T>::new(c.cap, c.d & 4 == 4, c.seed);
    let recv_side = c.a % 2 == 0;
    let action = c.b % 3; // 0 close, 1 last opposite handle dropped, 2 opposite handle dropped while a clone survives (negative control), then the clone
    if !recv_side {
        fill(&mut sc);
    }
    let kinds: Vec<Op> = if recv_side { wr_kinds() } else { ws_kinds() };
    let k = 1 + (c.c % 3) as usize;
    let mut ws = vec![];
    for i in 0..k {
        let w = sc.spawn(if recv_side { Side::R } else { Side::S }, i % 2 == 1, vec![kinds[(i + c.d as usize) % 4]]);
        if !sc.wait_registered(w, 0, i + 1) {
            return sc.finish(cx.lin_budget, &mut cx.obs, &mut cx.samples, &mut cx.lin_states);
        }
        ws.push(w);
    }
    let dropop = if recv_side { Op::DropS } else { Op::DropR };
    match action {
        0 => {
            sc.mexec(if c.d & 1 == 1 { Op::CloseR } else { Op::CloseS });
            sc.expect(sc.main_result() == Res::Ok, "C10", || "first close() must succeed".into());
            sc.mexec(if c.d & 2 == 2 { Op::CloseR } else { Op::CloseS });
            sc.expect(sc.main_result() == Res::Closed, "C10", || "second close() must fail".into());
            for op in [Op::TrySend, Op::TryRecv, Op::Len, Op::SenderCount, Op::ReceiverCount, Op::IsClosed, Op::Drain, Op::SendTimeout(100), Op::RecvTimeout(100), Op::ASend, Op::ARecv] {
                sc.mexec(op);
            }
            // close racing with close (seeded change Y3): two threads leave a spin barrier together and
            // close the same fresh channel, many rounds; in every round exactly one close() may report Ok.
            // Logical verdict (a count), no clock involved.
            let (both, none, rounds) = racing_closes(c.cap, c.d);
            sc.expect(both == 0 && none == 0, "C10", || format!("close() racing with close() on one channel: in {} of {} rounds both calls returned Ok and in {} rounds neither did; exactly one close may succeed", both, rounds, none));
            cell(cx, "closedisc/close-races-close".to_string());
        }
        1 => {
            sc.mexec(dropop);
        }
        _ => {
            sc.mexec(if recv_side { Op::CloneS(true) } else { Op::CloneR(true) });
            sc.mexec(dropop);
            std::thread::sleep(Duration::from_millis(2));
            let all_blocked = ws.iter().all(|w| !sc.worker_finished(*w));
            sc.expect(all_blocked && sc.waiters() == k, "C11", || "waiters were released although a handle of the opposite side still exists".into());
            sc.mexec(dropop);
        }
    }
    for w in ws {
        sc.join(w);
        let r = sc.worker_result(w, 0);
        sc.expect(matches!(r, Some(Res::Closed) | Some(Res::SendClosed) | Some(Res::RecvClosed) | Some(Res::NoneV)), "C10", || format!("a blocked operation must be released with an error, got {:?}", r));
    }
    cell(cx, format!("closedisc/{}-waiters-{}/{}/{}", if recv_side { "recv" } else { "send" }, k, ["close", "last-drop", "drop-with-survivor"][action as usize], T::NAME));
    sc.finish(cx.lin_budget, &mut cx.obs, &mut cx.samples, &mut cx.lin_states)
}
fn space_closedisc(cs: &mut Vec<Case>, class: &'static str) {
    for cap in [Some(0), Some(2)] {
        for a in 0..2 {
            for b in 0..3 {
                for c in 0..3 {
                    for d in 0..8 {
                        cs.push(Case { fam: "closedisc", class, cap, a, b, c, d, seed: 0 });
                    }
                }
            }
        }
    }
}

// ---------------------------------------------------------------------------------------------
// J. tight races: the waiter announces (pass counter) that it is AT a critical point of its own operation
// and the peer acts at that very moment, both sides jittered by a few hundred ns, many times per case.
// Nobody is held: this reaches the few-instruction windows BETWEEN failpoints (e.g. the waker's
// decision/publish pair against the waiter's spin->park CAS, expiry against hand-off).
fn fam_tight<T: Payload>(c: &Case, cx: &mut Ctx) -> Outcome {
    let n: usize = if cfg!(miri) { 3 } else { 150 + 50 * (c.d as usize % 3) };
    let (wk, pt, peer): (Op, u32, Op) = match c.a % 8 {
        0 => (Op::Recv, WAIT_BEFORE_STARVE_CAS, Op::TrySend),
        1 => (Op::Send, WAIT_BEFORE_STARVE_CAS, Op::TryRecv),
        2 => (Op::RecvTimeout(300), WAIT_TIMEOUT_EXPIRED, Op::TrySend),
        3 => (Op::SendTimeout(300), WAIT_TIMEOUT_EXPIRED, Op::TryRecv),
        4 => (Op::SendOptTimeout(300), TIMED_BEFORE_CANCEL, Op::TryRecv),
        5 => (Op::RecvTimeout(300), TIMED_BEFORE_CANCEL, Op::TrySend),
        6 => (Op::Recv, WAIT_BEFORE_PARK, Op::TrySend),
        _ => (Op::Send, WAIT_BEFORE_PARK, Op::TryRecv),
    };
    let recv_side = wk.is_recv();
    let mut sc = Scn::<T>::new(c.cap, c.d & 4 == 4, c.seed);
    sc.lin_max_events = 0;
    main_flavour(&mut sc, c.d & 2 == 2, c.d & 2 == 2);
    if !recv_side {
        fill(&mut sc);
    }
    let par1 = kanal::verif::get_parallelism() == 1;
    let role = 1u32;
    fp::set_jitter(role, pt, 1 + 40 * (1 + c.b % 6));
    // read the pass counter BEFORE the waiter exists: it may reach the point before we look again
    let mut last = fp::pass_count(role, pt);
    let w = sc.spawn(if recv_side { Side::R } else { Side::S }, c.d & 1 == 1, vec![wk; n]);
    let mut rng = Rng::new(c.seed ^ 77);
    let mut delivered = 0usize;
    let mut spins_total = 0u64;
    'iters: for _ in 0..n {
        // wait for the waiter to announce itself at the point (or to be done)
        let mut k = 0u32;
        let mut t_wait = std::time::Instant::now();
        loop {
            let pcur = fp::pass_count(role, pt);
            if pcur != last {
                last = pcur;
                break;
            }
            if sc.worker_finished(w) {
                break 'iters;
            }
            k += 1;
            if par1 {
                // one hardware thread: spinning only steals the waiter's time slice
                std::thread::yield_now();
                if k < 2_000_000 && k % 64 == 0 && t_wait.elapsed() > std::time::Duration::from_secs(2) {
                    k = 2_000_000;
                    continue;
                }
            }
            if k > 2_000_000 {
                std::thread::yield_now();
                // the waiter announces itself again and again as long as it has operations left; if it
                // stays silent it is stuck inside one whose counterpart (our last call) has returned
                if k % 4096 == 0 && t_wait.elapsed() > sc.grace {
                    let lastop = sc.main.log.last().map(|e| e.short()).unwrap_or_default();
                    sc.fail("C06", format!("blocked {:?} never came back although every call that could complete it has returned (last peer call: {}): lost wake-up in the spin->park hand-shake", wk, lastop));
                    break 'iters;
                }
            } else if k == 2_000_000 {
                t_wait = std::time::Instant::now();
            }
            std::hint::spin_loop();
        }
        let j = rng.below(1 + 30 * (1 + (c.b as u64 / 6) % 4));
        spins_total += j;
        for _ in 0..j {
            std::hint::spin_loop();
        }
        sc.main.exec(peer);
        if matches!(sc.main_result(), Res::True | Res::Val(_)) {
            delivered += 1;
        }
        if !recv_side {
            // keep the buffer full so that the next send blocks again
            if sc.cap != Some(0) {
                sc.main.exec(Op::TrySend);
            }
        }
    }
    // release whatever is still waiting
    sc.mexec(if recv_side { Op::CloseS } else { Op::CloseR });
    sc.join(w);
    let _ = spins_total;
    cell(cx, format!("tight/{}@{}/{}/{}", opn(&wk), POINT_NAMES[pt as usize], opn(&peer), T::NAME));
    *cx.cells.entry(format!("tight-deliveries/{}@{}", opn(&wk), POINT_NAMES[pt as usize])).or_insert(0) += delivered as u64;
    sc.finish(cx.lin_budget, &mut cx.obs, &mut cx.samples, &mut cx.lin_states)
}
fn space_tight(cs: &mut Vec<Case>, class: &'static str) {
    for cap in [Some(0), Some(1)] {
        for a in 0..8 {
            for b in 0..24 {
                for d in 0..8 {
                    cs.push(Case { fam: "tight", class, cap, a, b, c: 0, d, seed: 0 });
                }
            }
        }
    }
}

// ---------------------------------------------------------------------------------------------
// K. the receive stream across several waits: spurious polls, waker changes, a waker change while the
// sender is in the middle of completing the wait, close / disconnect, polls after the end
fn fam_stream<T: Payload>(c: &Case, cx: &mut Ctx) -> Outcome {
    let variant = c.a % 4;
    let mut sc = Scn::<T>::new(c.cap, c.d & 4 == 4, c.seed);
    sc.mexec(Op::CloneR(true));
    let mut expect_pending = |sc: &mut Scn<T>, w: usize, why: &str| {
        let r = sc.main.sstream_poll(w);
        let why = why.to_string();
        sc.expect(r.is_pending(), "C16", || format!("stream poll ({}) must stay Pending: nothing was sent, got {:?}", why, r));
    };
    let nwaits = 2 + (c.b % 3) as usize;
    match variant {
        0 => {
            // waits with spurious polls / waker changes; items sent by main itself
            for i in 0..nwaits {
                expect_pending(&mut sc, i % 2, "first poll of a wait on an empty channel");
                sc.pin_main_reg();
                for k in 0..(c.c % 3) as usize {
                    expect_pending(&mut sc, (i + k + 1) % 3, "spurious poll / new waker");
                }
                let last = sc.main.last_waker_stream;
                let before = sc.main.wakers[last].fired();
                sc.mexec(Op::TrySend);
                let tag = sc.main.log.last().unwrap().tag.unwrap();
                sc.expect(sc.main_result() == Res::True, "C08", || "try_send with the stream waiting must succeed".into());
                let fired = sc.main.wakers[last].fired();
                sc.expect(fired > before, "C16", || format!("the stream's wait was completed but the most recently supplied waker #{} did not fire", last));
                let r = sc.main.sstream_poll(last);
                sc.expect(matches!(r, Poll::Ready(Some(t)) if t == tag || !T::UNIQUE), "C16", || format!("stream must yield the value {} that completed its wait, got {:?}", tag, r));
            }
        }
        1 => {
            // a waker change lands while the sender is in the middle of completing the wait
            expect_pending(&mut sc, 0, "first poll");
            sc.pin_main_reg();
            let pt = [WAKE_ASYNC_CLONED, SEND_ENTER, SEND_WRITTEN, WAKE_ASYNC_BEFORE_WAKE][c.b as usize % 4];
            fp::arm(1, pt);
            let p = sc.spawn(Side::S, c.d & 1 == 1, vec![Op::TrySend]);
            if !sc.wait_arrived(p, pt) {
                return sc.finish(cx.lin_budget, &mut cx.obs, &mut cx.samples, &mut cx.lin_states);
            }
            sc.pin_reg(p, 0);
            // the poll with a new waker finds its signal claimed: it has to wait for the sender (or, if the
            // state is already published, just take the value)
            let polled = Arc::new(AtomicBool::new(false));
            let p2 = polled.clone();
            let h0 = sc.hits0;
            let abw0 = sc.hits()[ABW_ENTER as usize];
            let rel = release_when(1, pt, Duration::from_secs(100_000_000), move || fp::hits_delta(&h0)[ABW_ENTER as usize] > abw0 || p2.load(Ordering::Acquire));
            let r = sc.main.sstream_poll(1);
            polled.store(true, Ordering::Release);
            rel.join().unwrap();
            sc.join(p);
            let r = if r.is_pending() { sc.main.sstream_poll(1) } else { r };
            sc.expect(matches!(r, Poll::Ready(Some(_))), "C16", || format!("the stream must yield the value its claimed wait received, got {:?}", r));
            // the following waits must behave like fresh ones
            for i in 0..nwaits {
                expect_pending(&mut sc, (i + 1) % 2, "first poll of the next wait");
                sc.pin_main_reg();
                expect_pending(&mut sc, i % 2, "spurious poll with another waker");
                expect_pending(&mut sc, i % 2, "spurious poll with the same waker");
                sc.mexec(Op::TrySend);
                let tag = sc.main.log.last().unwrap().tag.unwrap();
                let r = sc.main.sstream_poll(i % 2);
                sc.expect(matches!(r, Poll::Ready(Some(t)) if t == tag || !T::UNIQUE), "C16", || format!("stream must yield the next value {}, got {:?}", tag, r));
            }
        }
        2 => {
            // wait -> item -> wait -> close -> end, and the end is reported again and again
            expect_pending(&mut sc, 0, "first poll");
            sc.pin_main_reg();
            sc.mexec(Op::TrySend);
            let r = sc.main.sstream_poll(0);
            sc.expect(matches!(r, Poll::Ready(Some(_))), "C16", || format!("stream must yield the sent value, got {:?}", r));
            expect_pending(&mut sc, 1, "second wait");
            sc.pin_main_reg();
            let before = sc.main.wakers[1].fired();
            sc.mexec(if c.b % 2 == 0 { Op::CloseS } else { Op::CloseR });
            sc.expect(sc.main.wakers[1].fired() > before, "C06", || "close() did not wake the pending stream".into());
            for _ in 0..3 {
                let r = sc.main.sstream_poll(c.c as usize % 3);
                sc.expect(matches!(r, Poll::Ready(None)), "C16", || format!("a stream on a closed channel must end and keep reporting the end, got {:?}", r));
            }
        }
        _ => {
            // buffered values, then the last sender goes away: everything is yielded in order, then the end
            let k = match sc.cap {
                Some(n) => n.min(3),
                None => 3,
            };
            let mut tags = vec![];
            for _ in 0..k {
                sc.mexec(Op::TrySend);
                tags.push(sc.main.log.last().unwrap().tag.unwrap());
            }
            if c.b % 2 == 0 {
                // a wait in between
                for t in tags.drain(..) {
                    let r = sc.main.sstream_poll(0);
                    sc.expect(matches!(r, Poll::Ready(Some(x)) if x == t || !T::UNIQUE), "C02", || format!("stream must yield buffered value {}, got {:?}", t, r));
                }
                expect_pending(&mut sc, 1, "buffer exhausted, sender alive");
                sc.pin_main_reg();
            }
            sc.mexec(Op::DropS);
            for t in tags {
                let r = sc.main.sstream_poll(1);
                sc.expect(matches!(r, Poll::Ready(Some(x)) if x == t || !T::UNIQUE), "C11", || format!("after the last sender is gone the stream must still yield buffered value {}, got {:?}", t, r));
            }
            for _ in 0..2 {
                let r = sc.main.sstream_poll(2);
                sc.expect(matches!(r, Poll::Ready(None)), "C16", || format!("stream must end after the last sender is gone, and keep reporting the end, got {:?}", r));
            }
        }
    }
    sc.main.sstream_drop();
    cell(cx, format!("stream/{}/{}", ["waits-with-spurious-polls", "waker-change-while-claimed", "close-during-wait", "disconnect-after-buffered"][variant as usize], T::NAME));
    sc.finish(cx.lin_budget, &mut cx.obs, &mut cx.samples, &mut cx.lin_states)
}
fn space_stream(cs: &mut Vec<Case>, class: &'static str) {
    for cap in [Some(0), Some(1), Some(2), None] {
        for a in 0..4 {
            for b in 0..4 {
                for c in 0..3 {
                    for d in [0, 1, 4, 5] {
                        cs.push(Case { fam: "stream", class, cap, a, b, c, d, seed: 0 });
                    }
                }
            }
        }
    }
}

// ---------------------------------------------------------------------------------------------
// L. random scripts: "the sequential differential, but with real blocked threads". A seeded random sequence of
// steps over the whole alphabet - block a waiter of a random kind (confirmed registered, order pinned), let the
// main actor issue any non-blocking / bounded call (late sends, drains, zero/short timed calls, clones, converts,
// drops, observers, close), start / re-poll (with changing wakers) / drop a send or receive future, poll the
// stream - and the complete history must be explainable by the reference channel in exactly that order.
fn fam_random<T: Payload>(c: &Case, cx: &mut Ctx) -> Outcome {
    let mut rng = Rng::new(c.seed ^ 0xABCD);
    let mut sc = Scn::<T>::new(c.cap, c.d & 4 == 4, c.seed);
    // spare handles so that futures/streams can borrow one and drops do not disconnect by accident
    // (one script in three goes without: exactly one handle per side, so that everything several threads do goes
    // through that one handle)
    if !rng.chance(1, 3) {
        sc.mexec(Op::CloneS(rng.chance(1, 2)));
        sc.mexec(Op::CloneR(rng.chance(1, 2)));
    }
    // some scripts pile up many waiters (the wait list starts with room for 4 or 8 entries and then grows)
    let maxlive = 2 + rng.below(7) as usize;
    let nsteps = 5 + rng.below(12) as usize + if maxlive > 4 { 8 } else { 0 };
    // most scripts lean to one side so that the wait list grows to three or four entries of one kind
    let bias = rng.below(3); // 0 receivers, 1 senders (buffer filled first), 2 mixed
    if bias == 1 {
        fill(&mut sc);
    }
    let mut live: Vec<usize> = vec![];
    let mut short_waiters: Vec<(usize, Op)> = vec![];
    let mut closed = false;
    let mut stream_used = false;
    for _ in 0..nsteps {
        // reap workers that have returned
        live.retain(|w| !sc.worker_finished(*w));
        let r = rng.below(100);
        if r < (if maxlive > 4 { 45 } else { 30 }) && live.len() < maxlive && !closed {
            // a new waiter
            let recv_side = match bias {
                0 => rng.chance(5, 6),
                1 => rng.chance(1, 6),
                _ => rng.chance(1, 2),
            };
            let kinds = if recv_side { wr_kinds() } else { ws_kinds() };
            let mut k = *rng.pick(&kinds);
            if rng.chance(1, 5) {
                k = if recv_side { Op::RecvTimeout(2000) } else { *rng.pick(&[Op::SendTimeout(2000), Op::SendOptTimeout(2000)]) };
            }
            if k == Op::StreamNext && stream_used {
                k = Op::ARecv;
            }
            let before = sc.waiters();
            let role = sc.role_of(live.len().max(0)) * 0 + (sc.n_workers() as u32 + 1);
            let reg_passes = |role: u32| fp::pass_count(role, WAIT_ENTER) + fp::pass_count(role, WAIT_TIMEOUT_ENTER) + fp::pass_count(role, REGISTER_WAKER);
            let passes0 = reg_passes(role);
            // one waiter in four does not get a clone of its own: it uses main's handle through a shared reference
            // (several operations in flight through ONE handle; the handle counts stay where they are)
            let side = if recv_side { Side::R } else { Side::S };
            let shareable = if recv_side { !sc.main.receivers.is_empty() } else { !sc.main.senders.is_empty() };
            let asyncf = rng.chance(1, 2);
            let short_timed = matches!(k, Op::SendTimeout(2000) | Op::SendOptTimeout(2000) | Op::RecvTimeout(2000));
            let w = if shareable && !matches!(k, Op::StreamNext) && rng.chance(1, 4) {
                *cx.cells.entry("random/shared-handle-waiters".to_string()).or_insert(0) += 1;
                sc.spawn_shared(side, vec![k])
            } else {
                sc.spawn(side, asyncf, vec![k])
            };
            if short_timed {
                short_waiters.push((w, k));
            }
            // either it returns at once, or it shows up in the wait list
            let t0 = std::time::Instant::now();
            let mut n = 0u32;
            loop {
                if sc.worker_finished(w) {
                    break;
                }
                // registered: the wait list grew, or (another waiter may have left at the same moment) the worker
                // itself passed one of the points that lie right at / after its registration
                if sc.waiters() == before + 1 || (reg_passes(role) != passes0 && sc.waiters() >= 1) {
                    sc.pin_reg(w, 0);
                    live.push(w);
                    break;
                }
                n += 1;
                if n < 100 || cfg!(miri) {
                    std::thread::yield_now();
                } else {
                    std::thread::sleep(Duration::from_micros(50));
                }
                if !cfg!(miri) && t0.elapsed() > sc.grace {
                    sc.inconclusive = Some("a spawned operation neither returned nor registered".into());
                    return sc.finish(cx.lin_budget, &mut cx.obs, &mut cx.samples, &mut cx.lin_states);
                }
            }
        } else if r < 70 {
            // a bounded call by the main actor
            let k = rng.below(4) as u8;
            let ops = [
                Op::TrySend, Op::TrySendOpt, Op::TrySendRt, Op::TrySendOptRt, Op::TryRecv, Op::TryRecvRt, Op::Drain, Op::TrySend, Op::TryRecv,
                Op::SendTimeout(0), Op::SendOptTimeout(0), Op::RecvTimeout(0), Op::SendTimeout(300), Op::SendOptTimeout(300), Op::RecvTimeout(300),
                Op::ASendDrop(k), Op::ARecvDrop(k), Op::Len, Op::IsFull, Op::IsEmpty, Op::SenderCount, Op::ReceiverCount, Op::IsClosed, Op::IsTerminated,
                Op::IsDisconnectedS, Op::IsDisconnectedR, Op::ConvS, Op::ConvR,
            ];
            let op = *rng.pick(&ops);
            if sc.main.has_for(op) {
                sc.mexec(op);
            }
        } else if r < 78 {
            // handle traffic (never the last handle of a side: that is what the end of the script does)
            let op = *rng.pick(&[Op::CloneS(true), Op::CloneS(false), Op::CloneR(true), Op::CloneR(false), Op::DropS, Op::DropR]);
            let ok = match op {
                Op::DropS => sc.main.senders.len() > 1,
                Op::DropR => sc.main.receivers.len() > 1,
                Op::CloneS(_) => !sc.main.senders.is_empty() && sc.main.senders.len() < 4,
                Op::CloneR(_) => !sc.main.receivers.is_empty() && sc.main.receivers.len() < 4,
                _ => true,
            };
            if ok {
                sc.mexec(op);
            }
        } else if r < 92 {
            // a future / the stream owned by the main actor, polled step by step with changing wakers
            let w = rng.below(3) as usize;
            match rng.below(6) {
                0 | 1 => {
                    if sc.main.has_held_r() {
                        if rng.chance(1, 3) { sc.main.rfut_drop() } else { let _ = sc.main.rfut_poll(w); }
                    } else if sc.main.receivers.len() > 1 {
                        if sc.main.rfut_start(w).is_pending() {
                            sc.pin_main_reg();
                        }
                    }
                }
                2 | 3 => {
                    if sc.main.has_held_s() {
                        if rng.chance(1, 3) { sc.main.sfut_drop() } else { let _ = sc.main.sfut_poll(w); }
                    } else if sc.main.senders.len() > 1 {
                        if sc.main.sfut_start(w).is_pending() {
                            sc.pin_main_reg();
                        }
                    }
                }
                _ => {
                    if stream_used || sc.main.receivers.len() > 1 {
                        stream_used = true;
                        let fresh = !sc.main.has_open_stream_wait();
                        if sc.main.sstream_poll(w).is_pending() && fresh {
                            sc.pin_main_reg();
                        }
                    }
                }
            }
        } else if r < 96 && !closed {
            sc.mexec(if rng.chance(1, 2) { Op::CloseS } else { Op::CloseR });
            closed = true;
        }
    }
    // a waiter with a 2 ms deadline comes back on its own, whatever else is queued around it: by now its deadline
    // passed long ago (generous watchdog, as for the stuck detectors; never under Miri)
    if !cfg!(miri) {
        for (w, k) in &short_waiters {
            let t0 = std::time::Instant::now();
            while !sc.worker_finished(*w) {
                if t0.elapsed() > sc.grace {
                    sc.viols.push(("C13".into(), format!("{:?} of worker {} was still blocked {} s after its 2 ms deadline although nothing was being delivered to it (it is supposed to report Timeout once the deadline has passed)", k, w, sc.grace.as_secs())));
                    return sc.finish(cx.lin_budget, &mut cx.obs, &mut cx.samples, &mut cx.lin_states);
                }
                std::thread::sleep(Duration::from_micros(200));
            }
        }
    }
    if sc.main.has_held_r() {
        sc.main.rfut_drop();
    }
    if sc.main.has_held_s() {
        sc.main.sfut_drop();
    }
    sc.main.sstream_drop();
    cell(cx, format!("random/{}steps/cap{}/{}", nsteps, kverif::exec::cap_name(sc.cap), T::NAME));
    sc.finish(cx.lin_budget, &mut cx.obs, &mut cx.samples, &mut cx.lin_states)
}
fn space_random(cs: &mut Vec<Case>, class: &'static str) {
    for cap in [Some(0), Some(1), Some(2), None, Some(0), Some(1), Some(3), Some(5)] {
        for a in 0..64 {
            for d in 0..8 {
                cs.push(Case { fam: "random", class, cap, a, b: 0, c: 0, d, seed: 0 });
            }
        }
    }
}

fn run_case<T: Payload>(c: &Case, cx: &mut Ctx) -> Outcome {
    match c.fam {
        "random" => fam_random::<T>(c, cx),
        "lateness" => fam_lateness::<T>(c, cx),
        "stream" => fam_stream::<T>(c, cx),
        "tight" => fam_tight::<T>(c, cx),
        "handoff" => fam_handoff::<T>(c, cx),
        "timed" => fam_timed::<T>(c, cx),
        "progress" => fam_progress::<T>(c, cx),
        "futdrop" => fam_futdrop::<T>(c, cx),
        "wakerace" => fam_wakerace::<T>(c, cx),
        "frozen" => fam_frozen::<T>(c, cx),
        "drain" => fam_drain::<T>(c, cx),
        "fifo" => fam_fifo::<T>(c, cx),
        "closedisc" => fam_closedisc::<T>(c, cx),
        _ => panic!("family"),
    }
}

const FAMILIES: [&str; 12] = ["handoff", "timed", "progress", "futdrop", "wakerace", "frozen", "drain", "fifo", "closedisc", "tight", "stream", "random"];

fn space(fam: &str, classes: &[&'static str]) -> Vec<Case> {
    let mut v = Vec::new();
    for class in classes {
        match fam {
            "handoff" => space_handoff(&mut v, class),
            "timed" => space_timed(&mut v, class),
            "progress" => space_progress(&mut v, class),
            "futdrop" => space_futdrop(&mut v, class),
            "wakerace" => space_wakerace(&mut v, class),
            "frozen" => space_frozen(&mut v, class),
            "drain" => space_drain(&mut v, class),
            "fifo" => space_fifo(&mut v, class),
            "closedisc" => space_closedisc(&mut v, class),
            "tight" => space_tight(&mut v, class),
            "stream" => space_stream(&mut v, class),
            "random" => space_random(&mut v, class),
            "lateness" => space_lateness(&mut v, class),
            _ => panic!("unknown family {}", fam),
        }
    }
    v
}

fn main() -> std::process::ExitCode {
    let a = kverif::args();
    let seed = kverif::arg_u64(&a, "seed", 1);
    let fams_arg = kverif::arg_str(&a, "family", "all").to_string();
    let fams: Vec<&str> = if fams_arg == "all" { FAMILIES.to_vec() } else { fams_arg.split(',').collect() };
    let samples_n = kverif::arg_u64(&a, "samples", 200) as usize;
    let exhaustive = a.contains_key("exhaustive");
    let shard = kverif::arg_u64(&a, "shard", 0) as usize;
    let nshards = kverif::arg_u64(&a, "nshards", 1) as usize;
    let stop_after = kverif::arg_u64(&a, "stop-after", 5);
    let grace_ms = kverif::arg_u64(&a, "grace-ms", 20_000);
    let classes_arg = kverif::arg_str(&a, "classes", "").to_string();
    let classes: Vec<&'static str> = if classes_arg.is_empty() { CLASSES.to_vec() } else { classes_arg.split(',').map(|c| *CLASSES.iter().find(|x| **x == c).expect("class")).collect() };
    let only = a.get("case").cloned();
    let casefile = a.get("casefile").cloned();
    if a.contains_key("trace") {
        kverif::scn::TRACE.store(true, Ordering::Relaxed);
    }
    payload::init(if cfg!(miri) { 1 << 11 } else { 1 << 17 });
    payload::want_drop_probe(kverif::arg_u64(&a, "drop-probe", 0) != 0);
    fp::install();
    #[cfg(feature = "tsan")]
    kverif::tsan::install();
    // watchdog for the main actor itself: a non-blocking call that waits, or a drop that never returns
    if !cfg!(miri) {
        let grace = Duration::from_millis(grace_ms + 10_000);
        std::thread::spawn(move || {
            let s = stuck::slot(MAIN_SLOT);
            let mut last = ((0u64, 0u32, 0u64), 0u64);
            let mut since = std::time::Instant::now();
            loop {
                std::thread::sleep(Duration::from_millis(100));
                let cur = (s.snapshot(), kverif::scn::MAIN_BEAT.load(Ordering::Relaxed));
                if cur != last {
                    last = cur;
                    since = std::time::Instant::now();
                } else if since.elapsed() > grace {
                    let in_op = cur.0 .2 == 1 || cur.0 .2 == 2;
                    if in_op || since.elapsed() > grace * 3 {
                        // inside a channel call that does not return, or wedged between calls for a long time
                        // (typically on the channel lock, which some thread never released)
                        println!("{}", J::O(vec![("engine".into(), J::s("scen")), ("main_actor_stuck".into(), J::B(true)), ("in_nonblocking_call".into(), J::B(cur.0 .2 == 1)), ("outside_call".into(), J::B(!in_op)), ("opid".into(), J::U(cur.0 .1 as u64))]).to_string());
                        std::process::exit(86);
                    }
                }
            }
        });
    }
    let case_no = Arc::new(std::sync::atomic::AtomicU64::new(0));
    let mut wd = None;
    if cfg!(miri) {
        // with -Zmiri-disable-isolation the clock is the host's: a case that sits for minutes is reported as
        // inconclusive (exit 3) together with the last script steps, instead of silently eating the time budget
        let cn = case_no.clone();
        wd = Some(std::thread::spawn(move || {
            let mut last = (0u64, std::time::Instant::now());
            loop {
                std::thread::sleep(Duration::from_millis(200));
                let c = cn.load(Ordering::Relaxed);
                if c == u64::MAX {
                    return;
                }
                if c != last.0 {
                    last = (c, std::time::Instant::now());
                } else if last.1.elapsed() > Duration::from_secs(240) {
                    let steps = kverif::scn::LAST.lock().map(|l| l.clone()).unwrap_or_default();
                    println!("{}", J::O(vec![("engine".into(), J::s("scen")), ("miri_case_timeout".into(), J::B(true)), ("last_steps".into(), J::A(steps.into_iter().map(J::s).collect()))]).to_string());
                    std::process::exit(3);
                }
            }
        }));
    }
    let t0 = std::time::Instant::now();
    let hits0 = fp::hits();
    let mut cx = Ctx { obs: Obs::default(), samples: vec![], lin_states: 0, cells: BTreeMap::new(), lin_budget: kverif::arg_u64(&a, "lin-budget", 400_000) };
    let mut rng = Rng::new(seed);
    let mut ncases = 0u64;
    let mut held = 0u64;
    let mut inconclusive = 0u64;
    let mut inconc_reasons: BTreeMap<String, u64> = BTreeMap::new();
    let mut viols: Vec<J> = vec![];
    let mut nviol = 0u64;
    let mut by_prop: BTreeMap<String, u64> = BTreeMap::new();
    let mut distinct: HashSet<String> = HashSet::new();
    let mut per_family: BTreeMap<String, u64> = BTreeMap::new();
    let mut sigs: HashSet<u64> = HashSet::new();
    'outer: for fam in &fams {
        let picks: Vec<Case> = if let Some(o) = &only {
            // fam:class:cap:a.b.c.d
            let f: Vec<&str> = o.split(':').collect();
            let n: Vec<u32> = f[3].split('.').map(|x| x.parse().unwrap()).collect();
            if f[0] != *fam {
                vec![]
            } else {
                vec![Case { fam: FAMILIES.iter().find(|x| **x == f[0]).expect("family"), class: CLASSES.iter().find(|x| **x == f[1]).expect("class"), cap: kverif::exec::parse_cap(f[2]), a: n[0], b: n[1], c: n[2], d: n[3], seed: 0 }]
            }
        } else if exhaustive {
            let sp = space(fam, &classes);
            sp.iter().enumerate().filter(|(i, _)| i % nshards == shard).map(|(_, c)| c.clone()).collect()
        } else {
            // the parameter space is the same for every class: build it once, draw the class separately
            let sp = space(fam, &classes[..1]);
            let mut r = rng.fork(hash_mix(shard as u64, fam.len() as u64));
            (0..samples_n)
                .map(|_| {
                    let mut c = sp[r.below(sp.len() as u64) as usize].clone();
                    c.class = classes[r.below(classes.len() as u64) as usize];
                    c
                })
                .collect()
        };
        for mut c in picks {
            c.seed = rng.next();
            if let Some(p) = &casefile {
                let _ = std::fs::write(p, format!("scen --case {} --seed {}\n", c.id(), seed));
            }
            fn go<T: Payload>(c: &Case, cx: &mut Ctx) -> Outcome {
                run_case::<T>(c, cx)
            }
            let nsamp = cx.samples.len();
            case_no.fetch_add(1, Ordering::Relaxed);
            let o = with_class!(c.class, go(&c, &mut cx));
            ncases += 1;
            *per_family.entry(fam.to_string()).or_insert(0) += 1;
            sigs.insert(fp::trace_signature());
            match o {
                Outcome::Held => {
                    held += 1;
                    distinct.insert(c.id());
                }
                Outcome::Inconclusive(s) => {
                    inconclusive += 1;
                    *inconc_reasons.entry(format!("{}: {}", fam, s)).or_insert(0) += 1;
                }
                Outcome::Violated(v) => {
                    let stuck_now = v.iter().any(|x| x.0 == "C06" && x.1.contains("still inside"));
                    // a linearizability failure inside a scripted family refutes that family's own property
                    // (the scripted order is part of the history): label it so, keeping the C03 wording
                    let primary = match *fam {
                        "handoff" => "C01",
                        "timed" => "C13",
                        "progress" => "C06",
                        "futdrop" => "C15",
                        "wakerace" => "C16",
                        "frozen" => "C14",
                        "drain" => "C19",
                        "fifo" => "C02",
                        "closedisc" => "C10",
                        "tight" => "C06",
                        "stream" => "C16",
                        _ => "C03",
                    };
                    let v: Vec<(String, String)> = v.into_iter().map(|(p, m)| if p == "C03" { (primary.to_string(), format!("[scripted {} scenario] {}", fam, m)) } else { (p, m) }).collect();
                    for (p, m) in &v {
                        nviol += 1;
                        *by_prop.entry(p.clone()).or_insert(0) += 1;
                        if viols.len() < 12 {
                            let hist = if cx.samples.len() > nsamp || !cx.samples.is_empty() { cx.samples[0].iter().map(|s| J::s(s.clone())).collect() } else { vec![] };
                            viols.push(J::O(vec![
                                ("property".into(), J::s(p.clone())),
                                ("what".into(), J::s(m.clone())),
                                ("case".into(), J::s(c.id())),
                                ("history".into(), J::A(hist)),
                                ("replay".into(), J::s(format!("scen --family {} --case {} --seed {}", fam, c.id(), seed))),
                            ]));
                        }
                    }
                    if stuck_now || nviol >= stop_after {
                        break 'outer;
                    }
                }
            }
        }
    }
    case_no.store(u64::MAX, Ordering::Relaxed);
    if let Some(h) = wd {
        let _ = h.join();
    }
    let hits = fp::hits_delta(&hits0);
    let mut out = J::obj();
    out.set("engine", J::s("scen"));
    out.set("drop_probe_calls", J::U(payload::PROBE_CALLS.load(std::sync::atomic::Ordering::Relaxed)));
    out.set("seed", J::U(seed));
    out.set("families", J::A(fams.iter().map(|f| J::s(*f)).collect()));
    out.set("cases", J::U(ncases));
    out.set("held", J::U(held));
    out.set("inconclusive", J::U(inconclusive));
    out.set("inconclusive_reasons", J::O(inconc_reasons.into_iter().map(|(k, v)| (k, J::U(v))).collect()));
    out.set("distinct_cases_held", J::U(distinct.len() as u64));
    out.set("distinct_failpoint_orders", J::U(sigs.len() as u64));
    out.set("per_family", J::O(per_family.into_iter().map(|(k, v)| (k, J::U(v))).collect()));
    out.set("cells", J::O(cx.cells.iter().map(|(k, v)| (k.clone(), J::U(*v))).collect()));
    out.set("distinct_cells", J::U(cx.cells.len() as u64));
    out.set("lin_states", J::U(cx.lin_states));
    out.set("obs", J::O(vec![
        ("sends_ok".into(), J::U(cx.obs.sends_ok)),
        ("received".into(), J::U(cx.obs.received)),
        ("consumed_by_dropped_future".into(), J::U(cx.obs.consumed_by_dropped_future)),
        ("destroyed_by_channel".into(), J::U(cx.obs.destroyed_by_channel)),
        ("timeouts".into(), J::U(cx.obs.timeouts)),
        ("closes_won".into(), J::U(cx.obs.closes_won)),
        ("disconnect_errors".into(), J::U(cx.obs.disconnect_errors)),
        ("drains".into(), J::U(cx.obs.drains)),
        ("fifo_pairs".into(), J::U(cx.obs.fifo_pairs)),
    ]));
    out.set("failpoint_hits", fp::hits_json(&hits));
    out.set("samples", J::A(cx.samples.iter().take(3).map(|s| J::A(s.iter().map(|x| J::s(x.clone())).collect())).collect()));
    out.set("violations", J::A(viols));
    out.set("violations_by_property", J::O(by_prop.into_iter().map(|(k, v)| (k, J::U(v))).collect()));
    out.set("nviolations", J::U(nviol));
    out.set("wall_s", J::F(t0.elapsed().as_secs_f64()));
    println!("{}", out.to_string());
    if nviol > 0 {
        // stuck workers may exist: leave without joining them
        std::process::exit(1);
    }
    std::process::ExitCode::from(0)
}
