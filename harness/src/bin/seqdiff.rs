//! E1 `seqdiff`: single-threaded call sequences over the whole public API,
//! executed against the real channel and `RefChan` in lock-step, with the
//! payload ledger, the observers and the waker accounting compared after
//! every step.  Bounded-exhaustive enumeration (odometer over the enabled
//! calls) and seeded random sequences.
use futures_core::{FusedStream, Stream};
use kanal::*;
use kverif::exec::*;
use kverif::json::J;
use kverif::model::*;
use kverif::payload::{self, ledger, Payload};
use kverif::rng::{hash_mix, Rng};
use kverif::with_class;
use std::collections::{HashMap, HashSet};
use std::future::Future;
use std::panic::{catch_unwind, AssertUnwindSafe};
use std::pin::Pin;
use std::sync::Arc;
use std::task::{Context, Poll};
use std::time::Duration;

const MAX_HANDLES: usize = 3;
const MAX_FUTS: usize = 2;
/// "wide" random sequences: up to 48 live futures of each side and 6 handles per side (many waiters in the wait
/// list at once, the ring wrapping around), with a bias towards creating futures
static WIDE: std::sync::atomic::AtomicBool = std::sync::atomic::AtomicBool::new(false);
fn wide() -> bool {
    WIDE.load(std::sync::atomic::Ordering::Relaxed)
}
fn max_futs() -> usize {
    if wide() {
        48
    } else {
        MAX_FUTS
    }
}
fn max_handles() -> usize {
    if wide() {
        6
    } else {
        MAX_HANDLES
    }
}

#[derive(Clone, Copy, Debug, PartialEq, Eq, Hash)]
enum Call {
    Send(usize),
    SendT0(usize),
    SendOptT0(usize),
    TrySend(usize),
    TrySendOpt(usize),
    TrySendRt(usize),
    TrySendOptRt(usize),
    OptNonePanic(usize, u8),
    /// 33 consecutive non-blocking sends (variant chosen by the second field): crosses the initial
    /// allocation of the buffer of an unbounded channel, fills any bounded one
    Burst(usize, u8),
    SFutNew(usize),
    SFutPoll(usize, usize),
    SFutDrop(usize),
    CloneS(usize, bool),
    DropS(usize),
    ConvS(usize),
    CloseS(usize),
    Recv(usize),
    IterNext(usize),
    RecvT0(usize),
    TryRecv(usize),
    TryRecvRt(usize),
    Drain(usize, u8),
    RFutNew(usize),
    RFutPoll(usize, usize),
    RFutDrop(usize),
    StreamNew(usize),
    StreamPoll(usize, usize),
    StreamDrop(usize),
    CloneR(usize, bool),
    DropR(usize),
    ConvR(usize),
    CloseR(usize),
    /// timed calls with a deadline that cannot expire (0: one hour, 1: `Duration::MAX`), offered only where the
    /// reference channel completes the call at once (kept at the end of the alphabet: older replays stay valid)
    SendTBig(usize, u8),
    SendOptTBig(usize, u8),
    RecvTBig(usize, u8),
    /// a registered (pending) future is leaked with `mem::forget`: legal, its memory stays valid, it is never polled
    /// or dropped again and no longer borrows its handle; its entry stays in the wait list ("ghost")
    SFutForget(usize),
    RFutForget(usize),
}
static FORGET: std::sync::atomic::AtomicBool = std::sync::atomic::AtomicBool::new(false);
fn big(k: u8) -> Duration {
    if k == 0 {
        Duration::from_secs(3600)
    } else {
        Duration::MAX
    }
}
impl Call {
    fn kind(&self) -> u64 {
        // discriminant only (for "distinct state x call" evidence)
        let s = format!("{:?}", self);
        let k = s.split('(').next().unwrap().to_string();
        k.bytes().fold(7u64, |h, b| hash_mix(h, b as u64))
    }
}

#[derive(Clone, Copy, Debug, PartialEq)]
enum MF {
    Zero,
    Waiting(OpId),
    Done,
}

struct SFut<T: 'static> {
    fut: Pin<Box<SendFuture<'static, T>>>,
    owner: usize,
    tag: Tag,
    st: MF,
    waker: usize,
}
struct RFut<T: 'static> {
    fut: Pin<Box<ReceiveFuture<'static, T>>>,
    owner: usize,
    st: MF,
    waker: usize,
}
struct RStream<T: 'static> {
    st_: Pin<Box<ReceiveStream<'static, T>>>,
    owner: usize,
    st: MF,
    waker: usize,
    terminated: bool,
}

struct World<T: Payload> {
    senders: Vec<Option<(Box<SH<T>>, u32)>>,
    receivers: Vec<Option<(Box<RH<T>>, u32)>>,
    sfuts: Vec<Option<SFut<T>>>,
    rfuts: Vec<Option<RFut<T>>>,
    streams: Vec<Option<RStream<T>>>,
    wakers: Vec<Arc<WakeCell>>,
    m: RefChan,
    comp: HashMap<OpId, Completion>,
    next_op: OpId,
    next_tag: Tag,
    /// expected number of drops per ledger slot so far
    exp_drops: HashMap<Tag, u32>,
    made: HashMap<Tag, u32>,
    step: usize,
    trace: Vec<String>,
    pat: u64,
    /// leaked pending futures: (operation id, waker it was last polled with)
    ghosts: Vec<(OpId, usize)>,
    /// values that ended up inside leaked futures: never destroyed, by the program's own doing
    leaked_tags: HashSet<Tag>,
}

type V = Result<(), String>;

fn se(e: &SendError) -> &'static str {
    match e {
        SendError::Closed => "Closed",
        SendError::ReceiveClosed => "ReceiveClosed",
    }
}
fn set(e: &SendErrorTimeout) -> &'static str {
    match e {
        SendErrorTimeout::Closed => "Closed",
        SendErrorTimeout::ReceiveClosed => "ReceiveClosed",
        SendErrorTimeout::Timeout => "Timeout",
    }
}
fn re(e: &ReceiveError) -> &'static str {
    match e {
        ReceiveError::Closed => "Closed",
        ReceiveError::SendClosed => "SendClosed",
    }
}
fn ret(e: &ReceiveErrorTimeout) -> &'static str {
    match e {
        ReceiveErrorTimeout::Closed => "Closed",
        ReceiveErrorTimeout::SendClosed => "SendClosed",
        ReceiveErrorTimeout::Timeout => "Timeout",
    }
}

/// run a real call, turning a panic into Err(())
fn guarded<R>(f: impl FnOnce() -> R) -> Result<R, ()> {
    catch_unwind(AssertUnwindSafe(f)).map_err(|_| ())
}

impl<T: Payload> World<T> {
    fn new(cap: Option<usize>, async_ctor: bool, pat: u64) -> Self {
        let (s, r) = new_chan::<T>(cap, async_ctor);
        World {
            senders: vec![Some((Box::new(s), 0))],
            receivers: vec![Some((Box::new(r), 0))],
            sfuts: vec![],
            rfuts: vec![],
            streams: vec![],
            // every other world polls with two wakers that share their data pointer and differ in the vtable only
            wakers: if pat & 1 == 1 { WakeCell::family(1, 2) } else { vec![WakeCell::new(1, None), WakeCell::new(2, None)] },
            m: RefChan::new(cap),
            comp: HashMap::new(),
            next_op: 1,
            next_tag: payload::FIRST_UNIQUE,
            exp_drops: HashMap::new(),
            made: HashMap::new(),
            step: 0,
            trace: vec![],
            pat,
            ghosts: vec![],
            leaked_tags: HashSet::new(),
        }
    }
    fn mk(&mut self) -> (T, Tag) {
        let t = self.next_tag;
        self.next_tag += 1;
        let v = T::make(t, payload::pattern(self.pat.wrapping_add(t)));
        let tag = v.tag();
        *self.made.entry(tag).or_insert(0) += 1;
        (v, tag)
    }
    fn op(&mut self) -> OpId {
        self.next_op += 1;
        self.next_op
    }
    fn expd(&mut self, tag: Tag) {
        *self.exp_drops.entry(tag).or_insert(0) += 1;
    }
    /// harness receives a value: check identity + integrity, then drop it
    fn take(&mut self, v: T, want: Tag, what: &str) -> V {
        let got = v.tag();
        let ok = v.ok();
        self.expd(got);
        drop(v);
        if got != want {
            return Err(format!("{}: received tag {} but the reference channel delivers {}", what, got, want));
        }
        if !ok {
            return Err(format!("{}: received value with tag {} fails its checksum (corrupted payload)", what, got));
        }
        Ok(())
    }
    fn live_s(&self) -> Vec<usize> {
        (0..self.senders.len()).filter(|i| self.senders[*i].is_some()).collect()
    }
    fn live_r(&self) -> Vec<usize> {
        (0..self.receivers.len()).filter(|i| self.receivers[*i].is_some()).collect()
    }
    fn count_live<X>(v: &[Option<X>]) -> usize {
        v.iter().filter(|x| x.is_some()).count()
    }
    fn sh(&self, i: usize) -> &SH<T> {
        &self.senders[i].as_ref().unwrap().0
    }
    fn rh(&self, i: usize) -> &RH<T> {
        &self.receivers[i].as_ref().unwrap().0
    }

    fn enabled(&self) -> Vec<Call> {
        let mut c = Vec::new();
        let ls = self.live_s();
        let lr = self.live_r();
        let ns = ls.len();
        let nr = lr.len();
        for &i in &ls {
            let borrowed = self.senders[i].as_ref().unwrap().1 > 0;
            // would a blocking send block?
            let mut mm = self.m.clone();
            let mut d = vec![];
            if mm.send(0, 0, true, &mut d) != SendOut::Blocked {
                c.push(Call::Send(i));
            }
            c.push(Call::SendT0(i));
            c.push(Call::SendOptT0(i));
            c.push(Call::TrySend(i));
            c.push(Call::TrySendOpt(i));
            c.push(Call::TrySendRt(i));
            c.push(Call::TrySendOptRt(i));
            if i == ls[0] {
                for k in 0..3 {
                    c.push(Call::OptNonePanic(i, k));
                }
                for k in 0..2 {
                    c.push(Call::Burst(i, k));
                }
            }
            if Self::count_live(&self.sfuts) < max_futs() {
                c.push(Call::SFutNew(i));
            }
            if ns < max_handles() {
                c.push(Call::CloneS(i, false));
                c.push(Call::CloneS(i, true));
            }
            if !borrowed {
                c.push(Call::DropS(i));
                c.push(Call::ConvS(i));
            }
            c.push(Call::CloseS(i));
        }
        for (f, x) in self.sfuts.iter().enumerate() {
            if x.is_some() {
                c.push(Call::SFutPoll(f, 0));
                c.push(Call::SFutPoll(f, 1));
                c.push(Call::SFutDrop(f));
            }
        }
        for &i in &lr {
            let borrowed = self.receivers[i].as_ref().unwrap().1 > 0;
            let mut mm = self.m.clone();
            let mut d = vec![];
            if mm.recv(0, true, &mut d) != RecvOut::Blocked {
                c.push(Call::Recv(i));
                if !borrowed && !self.rh(i).is_async() {
                    c.push(Call::IterNext(i));
                }
            }
            c.push(Call::RecvT0(i));
            c.push(Call::TryRecv(i));
            c.push(Call::TryRecvRt(i));
            for k in 0..3 {
                c.push(Call::Drain(i, k));
            }
            if Self::count_live(&self.rfuts) < max_futs() {
                c.push(Call::RFutNew(i));
            }
            if Self::count_live(&self.streams) < 1 {
                c.push(Call::StreamNew(i));
            }
            if nr < max_handles() {
                c.push(Call::CloneR(i, false));
                c.push(Call::CloneR(i, true));
            }
            if !borrowed {
                c.push(Call::DropR(i));
                c.push(Call::ConvR(i));
            }
            c.push(Call::CloseR(i));
        }
        for (f, x) in self.rfuts.iter().enumerate() {
            if x.is_some() {
                c.push(Call::RFutPoll(f, 0));
                c.push(Call::RFutPoll(f, 1));
                c.push(Call::RFutDrop(f));
            }
        }
        for (f, x) in self.streams.iter().enumerate() {
            if x.is_some() {
                c.push(Call::StreamPoll(f, 0));
                c.push(Call::StreamPoll(f, 1));
                c.push(Call::StreamDrop(f));
            }
        }
        for &i in &ls {
            let mut mm = self.m.clone();
            let mut d = vec![];
            if mm.send(0, 0, true, &mut d) != SendOut::Blocked {
                for k in 0..2 {
                    c.push(Call::SendTBig(i, k));
                    c.push(Call::SendOptTBig(i, k));
                }
            }
        }
        for &i in &lr {
            let mut mm = self.m.clone();
            let mut d = vec![];
            if mm.recv(0, true, &mut d) != RecvOut::Blocked {
                for k in 0..2 {
                    c.push(Call::RecvTBig(i, k));
                }
            }
        }
        if FORGET.load(std::sync::atomic::Ordering::Relaxed) && self.ghosts.len() < 3 {
            for (f, x) in self.sfuts.iter().enumerate() {
                if let Some(x) = x {
                    if let MF::Waiting(id) = x.st {
                        if !self.comp.contains_key(&id) {
                            c.push(Call::SFutForget(f));
                        }
                    }
                }
            }
            for (f, x) in self.rfuts.iter().enumerate() {
                if let Some(x) = x {
                    if let MF::Waiting(id) = x.st {
                        if !self.comp.contains_key(&id) {
                            c.push(Call::RFutForget(f));
                        }
                    }
                }
            }
        }
        c
    }

    /// wake accounting: snapshot before a real call
    fn wsnap(&self) -> Vec<usize> {
        self.wakers.iter().map(|w| w.fired()).collect()
    }
    /// after the model step produced `done`, record completions and check that
    /// the last-supplied waker of every completed pending future fired
    fn settle(&mut self, done: Vec<(OpId, Completion)>, before: &[usize], what: &str) -> V {
        let mut need = vec![0usize; self.wakers.len()];
        for (id, c) in done {
            self.comp.insert(id, c);
            let mut w = None;
            for f in self.sfuts.iter().flatten() {
                if f.st == MF::Waiting(id) {
                    w = Some(f.waker);
                }
            }
            for f in self.rfuts.iter().flatten() {
                if f.st == MF::Waiting(id) {
                    w = Some(f.waker);
                }
            }
            for f in self.streams.iter().flatten() {
                if f.st == MF::Waiting(id) {
                    w = Some(f.waker);
                }
            }
            for (gid, gw) in &self.ghosts {
                if *gid == id {
                    // a leaked future is completed (and its waker invoked) like any other waiter
                    w = Some(*gw);
                    if let Completion::Got(t) = c {
                        self.leaked_tags.insert(t);
                    }
                }
            }
            if let Some(w) = w {
                need[w] += 1;
            }
        }
        for (i, n) in need.iter().enumerate() {
            let delta = self.wakers[i].fired() - before[i];
            if delta < *n {
                return Err(format!(
                    "{}: {} pending future(s) last polled with waker #{} were completed by this call but that waker fired {} time(s) (wake-up lost or delivered to a stale waker; other waker deltas: {:?})",
                    what,
                    n,
                    i + 1,
                    delta,
                    self.wakers.iter().enumerate().map(|(j, w)| w.fired() - before[j]).collect::<Vec<_>>()
                ));
            }
        }
        Ok(())
    }

    fn send_err_expect(out: SendOut) -> &'static str {
        match out {
            SendOut::Closed => "Closed",
            SendOut::RecvClosed => "ReceiveClosed",
            _ => unreachable!(),
        }
    }

    fn apply(&mut self, c: Call) -> V {
        let what = format!("step {} {:?}", self.step, c);
        let unexpected_panic = || format!("{}: the call panicked although the contract documents no panic here", what);
        let before = self.wsnap();
        let mut done = vec![];
        match c {
            Call::Send(i) | Call::SendT0(i) | Call::TrySend(i) | Call::TrySendRt(i) | Call::SendTBig(i, _) => {
                let (v, tag) = self.mk();
                let block = matches!(c, Call::Send(_) | Call::SendT0(_) | Call::SendTBig(..));
                let id = self.op();
                let mut out = self.m.send(id, tag, block, &mut done);
                if out == SendOut::Blocked {
                    // only SendT0 gets here: zero deadline expires, waiter cancels itself
                    assert!(matches!(c, Call::SendT0(_)));
                    assert!(self.m.cancel_send(id));
                    out = SendOut::Full; // stands for Timeout below
                }
                let h = self.sh(i);
                let na = h.is_async();
                let got: String = match c {
                    Call::Send(_) => match guarded(|| h.sy().send(v)).map_err(|_| unexpected_panic())? {
                        Ok(()) => "Ok".into(),
                        Err(e) => se(&e).into(),
                    },
                    Call::SendT0(_) => match guarded(|| h.sy().send_timeout(v, Duration::ZERO)).map_err(|_| unexpected_panic())? {
                        Ok(()) => "Ok".into(),
                        Err(e) => set(&e).into(),
                    },
                    Call::SendTBig(_, k) => match guarded(|| h.sy().send_timeout(v, big(k))).map_err(|_| unexpected_panic())? {
                        Ok(()) => "Ok".into(),
                        Err(e) => set(&e).into(),
                    },
                    Call::TrySend(_) => {
                        let r = if na { guarded(|| h.asy().try_send(v)) } else { guarded(|| h.sy().try_send(v)) };
                        match r.map_err(|_| unexpected_panic())? {
                            Ok(b) => format!("Ok({})", b),
                            Err(e) => se(&e).into(),
                        }
                    }
                    _ => {
                        let r = if na { guarded(|| h.asy().try_send_realtime(v)) } else { guarded(|| h.sy().try_send_realtime(v)) };
                        match r.map_err(|_| unexpected_panic())? {
                            Ok(b) => format!("Ok({})", b),
                            Err(e) => se(&e).into(),
                        }
                    }
                };
                let tryk = matches!(c, Call::TrySend(_) | Call::TrySendRt(_));
                let want: String = match out {
                    SendOut::Done => if tryk { "Ok(true)".into() } else { "Ok".into() },
                    SendOut::Full => {
                        self.expd(tag);
                        if tryk { "Ok(false)".into() } else { "Timeout".into() }
                    }
                    e => {
                        self.expd(tag);
                        Self::send_err_expect(e).into()
                    }
                };
                if got != want {
                    return Err(format!("{}: returned {} but the reference channel returns {}", what, got, want));
                }
            }
            Call::SendOptT0(i) | Call::TrySendOpt(i) | Call::TrySendOptRt(i) | Call::SendOptTBig(i, _) => {
                let (v, tag) = self.mk();
                let block = matches!(c, Call::SendOptT0(_) | Call::SendOptTBig(..));
                let id = self.op();
                let mut out = self.m.send(id, tag, block, &mut done);
                if out == SendOut::Blocked {
                    assert!(self.m.cancel_send(id));
                    out = SendOut::Full;
                }
                let h = self.sh(i);
                let na = h.is_async();
                let mut opt = Some(v);
                let got: String = match c {
                    Call::SendOptT0(_) => match guarded(|| h.sy().send_option_timeout(&mut opt, Duration::ZERO)).map_err(|_| unexpected_panic())? {
                        Ok(()) => "Ok".into(),
                        Err(e) => set(&e).into(),
                    },
                    Call::SendOptTBig(_, k) => match guarded(|| h.sy().send_option_timeout(&mut opt, big(k))).map_err(|_| unexpected_panic())? {
                        Ok(()) => "Ok".into(),
                        Err(e) => set(&e).into(),
                    },
                    Call::TrySendOpt(_) => {
                        let r = if na { guarded(|| h.asy().try_send_option(&mut opt)) } else { guarded(|| h.sy().try_send_option(&mut opt)) };
                        match r.map_err(|_| unexpected_panic())? {
                            Ok(b) => format!("Ok({})", b),
                            Err(e) => se(&e).into(),
                        }
                    }
                    _ => {
                        let r = if na { guarded(|| h.asy().try_send_option_realtime(&mut opt)) } else { guarded(|| h.sy().try_send_option_realtime(&mut opt)) };
                        match r.map_err(|_| unexpected_panic())? {
                            Ok(b) => format!("Ok({})", b),
                            Err(e) => se(&e).into(),
                        }
                    }
                };
                let tryk = !block;
                let (want, keeps): (String, bool) = match out {
                    SendOut::Done => (if tryk { "Ok(true)".into() } else { "Ok".into() }, false),
                    SendOut::Full => (if tryk { "Ok(false)".into() } else { "Timeout".into() }, true),
                    e => (Self::send_err_expect(e).into(), true),
                };
                let has = opt.is_some();
                if let Some(v) = opt.take() {
                    // handed back: must be the same value, intact
                    let t2 = v.tag();
                    let ok = v.ok();
                    self.expd(t2);
                    drop(v);
                    if t2 != tag || !ok {
                        return Err(format!("{}: the Option holds a different/corrupted value (tag {} ok={}) than the one supplied (tag {})", what, t2, ok, tag));
                    }
                }
                if got != want {
                    return Err(format!("{}: returned {} but the reference channel returns {}", what, got, want));
                }
                if has != keeps {
                    return Err(format!("{}: returned {} and left the Option {} (must be Some exactly on failure, None exactly on success)", what, got, if has { "Some" } else { "None" }));
                }
            }
            Call::Burst(i, k) => {
                for n in 0..33 {
                    let sub = match (k + n as u8) % 4 {
                        0 => Call::TrySendRt(i),
                        1 => Call::TrySend(i),
                        2 => Call::TrySendOptRt(i),
                        _ => Call::TrySendOpt(i),
                    };
                    self.apply(sub)?;
                }
                return Ok(());
            }
            Call::OptNonePanic(i, k) => {
                let h = self.sh(i);
                let mut opt: Option<T> = None;
                let r = match k {
                    0 => guarded(|| {
                        let _ = h.sy().try_send_option(&mut opt);
                    }),
                    1 => guarded(|| {
                        let _ = h.sy().try_send_option_realtime(&mut opt);
                    }),
                    _ => guarded(|| {
                        let _ = h.sy().send_option_timeout(&mut opt, Duration::ZERO);
                    }),
                };
                if r.is_ok() {
                    return Err(format!("{}: a None option must panic (documented), but the call returned", what));
                }
            }
            Call::SFutNew(i) => {
                let (v, tag) = self.mk();
                let slot = self.senders[i].as_mut().unwrap();
                slot.1 += 1;
                let a: &'static AsyncSender<T> = unsafe { &*(slot.0.asy() as *const AsyncSender<T>) };
                let fut = Box::pin(a.send(v));
                let f = SFut { fut, owner: i, tag, st: MF::Zero, waker: 0 };
                if let Some(p) = self.sfuts.iter().position(|x| x.is_none()) {
                    self.sfuts[p] = Some(f);
                } else {
                    self.sfuts.push(Some(f));
                }
            }
            Call::SFutPoll(f, w) => {
                let wk = waker_of(&self.wakers[w]);
                let st = self.sfuts[f].as_ref().unwrap().st;
                let tag = self.sfuts[f].as_ref().unwrap().tag;
                let mut want: String;
                let mut newst = st;
                match st {
                    MF::Zero => {
                        let id = self.op();
                        match self.m.send(id, tag, true, &mut done) {
                            SendOut::Done => {
                                want = "Ready(Ok)".into();
                                newst = MF::Done;
                            }
                            SendOut::Blocked => {
                                want = "Pending".into();
                                newst = MF::Waiting(id);
                            }
                            e => {
                                want = format!("Ready({})", Self::send_err_expect(e));
                                newst = MF::Done;
                                self.expd(tag);
                            }
                        }
                    }
                    MF::Waiting(id) => match self.comp.get(&id) {
                        Some(Completion::Sent) => {
                            want = "Ready(Ok)".into();
                            newst = MF::Done;
                        }
                        Some(Completion::Terminated) => {
                            want = "Ready(Closed)".into();
                            newst = MF::Done;
                            self.expd(tag);
                        }
                        _ => want = "Pending".into(),
                    },
                    MF::Done => want = "panic".into(),
                }
                let fu = self.sfuts[f].as_mut().unwrap();
                let mut cx = Context::from_waker(&wk);
                let r = guarded(|| fu.fut.as_mut().poll(&mut cx));
                let got: String = match r {
                    Err(()) => "panic".into(),
                    Ok(Poll::Pending) => "Pending".into(),
                    Ok(Poll::Ready(Ok(()))) => "Ready(Ok)".into(),
                    Ok(Poll::Ready(Err(e))) => format!("Ready({})", se(&e)),
                };
                fu.st = newst;
                fu.waker = w;
                if got != want {
                    if want == "panic" {
                        want = "a panic (polling a finished future)".into();
                    }
                    return Err(format!("{}: poll returned {} but the reference channel gives {}", what, got, want));
                }
            }
            Call::SFutDrop(f) => {
                let fu = self.sfuts[f].take().unwrap();
                match fu.st {
                    MF::Zero => self.expd(fu.tag),
                    MF::Waiting(id) => match self.comp.get(&id) {
                        Some(Completion::Sent) => {}
                        Some(_) => self.expd(fu.tag),
                        None => {
                            assert!(self.m.cancel_send(id));
                            self.expd(fu.tag);
                        }
                    },
                    MF::Done => {}
                }
                let owner = fu.owner;
                guarded(move || drop(fu)).map_err(|_| unexpected_panic())?;
                self.senders[owner].as_mut().unwrap().1 -= 1;
            }
            Call::SFutForget(f) => {
                let fu = self.sfuts[f].take().unwrap();
                if let MF::Waiting(id) = fu.st {
                    self.ghosts.push((id, fu.waker));
                }
                // the value travels with the leaked future: destroyed by a receiver if it is ever taken, never otherwise
                self.leaked_tags.insert(fu.tag);
                let owner = fu.owner;
                std::mem::forget(fu);
                self.senders[owner].as_mut().unwrap().1 -= 1;
            }
            Call::RFutForget(f) => {
                let fu = self.rfuts[f].take().unwrap();
                if let MF::Waiting(id) = fu.st {
                    self.ghosts.push((id, fu.waker));
                }
                let owner = fu.owner;
                std::mem::forget(fu);
                self.receivers[owner].as_mut().unwrap().1 -= 1;
            }
            Call::CloneS(i, fl) => {
                self.m.clone_sender();
                let h = guarded(|| self.sh(i).clone_as(fl)).map_err(|_| unexpected_panic())?;
                let e = Some((Box::new(h), 0));
                if let Some(p) = self.senders.iter().position(|x| x.is_none()) {
                    self.senders[p] = e;
                } else {
                    self.senders.push(e);
                }
            }
            Call::DropS(i) => {
                self.m.drop_sender(&mut done);
                let h = self.senders[i].take().unwrap();
                guarded(move || drop(h)).map_err(|_| unexpected_panic())?;
            }
            Call::ConvS(i) => {
                let (h, b) = self.senders[i].take().unwrap();
                assert_eq!(b, 0);
                let h2 = guarded(move || (*h).convert()).map_err(|_| unexpected_panic())?;
                self.senders[i] = Some((Box::new(h2), 0));
            }
            Call::CloseS(i) | Call::CloseR(i) => {
                let want = match self.m.close(&mut done) {
                    Ok(destroyed) => {
                        for t in destroyed {
                            self.expd(t);
                        }
                        "Ok"
                    }
                    Err(()) => "Err",
                };
                let r = match c {
                    Call::CloseS(_) => {
                        let h = self.sh(i);
                        if h.is_async() { guarded(|| h.asy().close()) } else { guarded(|| h.sy().close()) }
                    }
                    _ => {
                        let h = self.rh(i);
                        if h.is_async() { guarded(|| h.asy().close()) } else { guarded(|| h.sy().close()) }
                    }
                }
                .map_err(|_| unexpected_panic())?;
                let got = if r.is_ok() { "Ok" } else { "Err" };
                if got != want {
                    return Err(format!("{}: close returned {} but the reference channel returns {}", what, got, want));
                }
            }
            Call::Recv(i) | Call::IterNext(i) | Call::RecvT0(i) | Call::TryRecv(i) | Call::TryRecvRt(i) | Call::RecvTBig(i, _) => {
                let block = matches!(c, Call::Recv(_) | Call::IterNext(_) | Call::RecvT0(_) | Call::RecvTBig(..));
                let id = self.op();
                let mut out = self.m.recv(id, block, &mut done);
                if out == RecvOut::Blocked {
                    assert!(matches!(c, Call::RecvT0(_)));
                    assert!(self.m.cancel_recv(id));
                    out = RecvOut::Empty; // stands for Timeout
                }
                let na = self.rh(i).is_async();
                // real call
                let got: Result<Result<Option<T>, &'static str>, ()> = match c {
                    Call::Recv(_) => guarded(|| self.rh(i).sy().recv().map(Some).map_err(|e| re(&e))),
                    Call::IterNext(_) => {
                        // Iterator::next needs &mut Receiver (sync handle, not borrowed)
                        let slot = self.receivers[i].as_mut().unwrap();
                        match &mut *slot.0 {
                            RH::S(r) => guarded(|| match r.next() {
                                Some(v) => Ok(Some(v)),
                                None => Err("None"),
                            }),
                            _ => unreachable!(),
                        }
                    }
                    Call::RecvT0(_) => guarded(|| self.rh(i).sy().recv_timeout(Duration::ZERO).map(Some).map_err(|e| ret(&e))),
                    Call::RecvTBig(_, k) => guarded(|| self.rh(i).sy().recv_timeout(big(k)).map(Some).map_err(|e| ret(&e))),
                    Call::TryRecv(_) => {
                        if na { guarded(|| self.rh(i).asy().try_recv().map_err(|e| re(&e))) } else { guarded(|| self.rh(i).sy().try_recv().map_err(|e| re(&e))) }
                    }
                    _ => {
                        if na { guarded(|| self.rh(i).asy().try_recv_realtime().map_err(|e| re(&e))) } else { guarded(|| self.rh(i).sy().try_recv_realtime().map_err(|e| re(&e))) }
                    }
                };
                let got = got.map_err(|_| unexpected_panic())?;
                let iter = matches!(c, Call::IterNext(_));
                match (out, got) {
                    (RecvOut::Got(t), Ok(Some(v))) => self.take(v, t, &what)?,
                    (RecvOut::Empty, Ok(None)) if !block => {}
                    (RecvOut::Empty, Err("Timeout")) if block => {}
                    (RecvOut::Closed, Err("Closed")) => {}
                    (RecvOut::Closed, Err("None")) | (RecvOut::SendClosed, Err("None")) if iter => {}
                    (RecvOut::SendClosed, Err("SendClosed")) => {}
                    // the clock is checked before the disconnect test: both are right with a zero deadline
                    (RecvOut::SendClosed, Err("Timeout")) if matches!(c, Call::RecvT0(_)) => {}
                    (o, g) => {
                        let gs = match g {
                            Ok(Some(v)) => {
                                let s = format!("Ok(tag {})", v.tag());
                                self.expd(v.tag());
                                drop(v);
                                s
                            }
                            Ok(None) => "Ok(None)".into(),
                            Err(e) => e.to_string(),
                        };
                        return Err(format!("{}: returned {} but the reference channel gives {:?}", what, gs, o));
                    }
                }
            }
            Call::Drain(i, k) => {
                let mut vec: Vec<T> = match k {
                    0 => Vec::new(),
                    1 => Vec::with_capacity(64),
                    _ => Vec::with_capacity(2),
                };
                let mut prefix = vec![];
                if k > 0 {
                    for _ in 0..2 {
                        let (v, t) = self.mk();
                        prefix.push(t);
                        vec.push(v);
                    }
                }
                if k == 2 {
                    vec.shrink_to_fit();
                }
                let want = self.m.drain(&mut done);
                let na = self.rh(i).is_async();
                let r = if na { guarded(|| self.rh(i).asy().drain_into(&mut vec)) } else { guarded(|| self.rh(i).sy().drain_into(&mut vec)) };
                let tags: Vec<Tag> = vec.iter().map(|v| v.tag()).collect();
                let oks: Vec<bool> = vec.iter().map(|v| v.ok()).collect();
                for t in &tags {
                    self.expd(*t);
                }
                drop(vec);
                let r = r.map_err(|_| unexpected_panic())?;
                if tags.len() < prefix.len() || tags[..prefix.len()] != prefix[..] {
                    return Err(format!("{}: the vector's previous contents {:?} were changed: now {:?}", what, prefix, tags));
                }
                if oks.iter().any(|o| !o) {
                    return Err(format!("{}: a drained value fails its checksum", what));
                }
                let app = &tags[prefix.len()..];
                match (want, r) {
                    (None, Err(e)) if re(&e) == "Closed" && app.is_empty() => {}
                    (Some(w), Ok(n)) => {
                        if app != &w[..] {
                            return Err(format!("{}: appended {:?} but the reference channel drains {:?} (buffer first, then blocked senders oldest first)", what, app, w));
                        }
                        if n != app.len() {
                            return Err(format!("{}: returned count {} but {} values were appended", what, n, app.len()));
                        }
                    }
                    (w, r) => {
                        return Err(format!("{}: returned {:?} / appended {:?} but the reference channel gives {:?}", what, r.map_err(|e| re(&e)), app, w));
                    }
                }
            }
            Call::RFutNew(i) => {
                let slot = self.receivers[i].as_mut().unwrap();
                slot.1 += 1;
                let a: &'static AsyncReceiver<T> = unsafe { &*(slot.0.asy() as *const AsyncReceiver<T>) };
                let f = RFut { fut: Box::pin(a.recv()), owner: i, st: MF::Zero, waker: 0 };
                if let Some(p) = self.rfuts.iter().position(|x| x.is_none()) {
                    self.rfuts[p] = Some(f);
                } else {
                    self.rfuts.push(Some(f));
                }
            }
            Call::StreamNew(i) => {
                let slot = self.receivers[i].as_mut().unwrap();
                slot.1 += 1;
                let a: &'static AsyncReceiver<T> = unsafe { &*(slot.0.asy() as *const AsyncReceiver<T>) };
                let f = RStream { st_: Box::pin(a.stream()), owner: i, st: MF::Zero, waker: 0, terminated: false };
                if let Some(p) = self.streams.iter().position(|x| x.is_none()) {
                    self.streams[p] = Some(f);
                } else {
                    self.streams.push(Some(f));
                }
            }
            Call::RFutPoll(f, w) | Call::StreamPoll(f, w) => {
                let is_stream = matches!(c, Call::StreamPoll(..));
                let wk = waker_of(&self.wakers[w]);
                let (st, term) = if is_stream {
                    let s = self.streams[f].as_ref().unwrap();
                    (s.st, s.terminated)
                } else {
                    (self.rfuts[f].as_ref().unwrap().st, false)
                };
                // expected
                #[derive(Debug)]
                enum W {
                    Pending,
                    Val(Tag),
                    Err(&'static str),
                    End,
                    Panic,
                }
                let mut newst = st;
                let mut newterm = term;
                let want = if term {
                    W::End
                } else {
                    match st {
                        MF::Zero => {
                            let id = self.op();
                            match self.m.recv(id, true, &mut done) {
                                RecvOut::Got(t) => {
                                    newst = if is_stream { MF::Zero } else { MF::Done };
                                    W::Val(t)
                                }
                                RecvOut::Blocked => {
                                    newst = MF::Waiting(id);
                                    W::Pending
                                }
                                RecvOut::Closed => {
                                    newst = MF::Done;
                                    newterm = true;
                                    W::Err("Closed")
                                }
                                RecvOut::SendClosed => {
                                    newst = MF::Done;
                                    newterm = true;
                                    W::Err("SendClosed")
                                }
                                RecvOut::Empty => unreachable!(),
                            }
                        }
                        MF::Waiting(id) => match self.comp.get(&id) {
                            Some(Completion::Got(t)) => {
                                newst = if is_stream { MF::Zero } else { MF::Done };
                                W::Val(*t)
                            }
                            Some(_) => {
                                newst = MF::Done;
                                newterm = true;
                                W::Err("Closed")
                            }
                            None => W::Pending,
                        },
                        MF::Done => W::Panic,
                    }
                };
                let mut cx = Context::from_waker(&wk);
                enum G<T> {
                    Pending,
                    Val(T),
                    Err(&'static str),
                    End,
                    Panic,
                }
                let got: G<T> = if is_stream {
                    let s = self.streams[f].as_mut().unwrap();
                    let r = guarded(|| s.st_.as_mut().poll_next(&mut cx));
                    s.st = newst;
                    s.waker = w;
                    s.terminated = newterm;
                    match r {
                        Err(()) => G::Panic,
                        Ok(Poll::Pending) => G::Pending,
                        Ok(Poll::Ready(Some(v))) => G::Val(v),
                        Ok(Poll::Ready(None)) => G::End,
                    }
                } else {
                    let s = self.rfuts[f].as_mut().unwrap();
                    let r = guarded(|| s.fut.as_mut().poll(&mut cx));
                    s.st = newst;
                    s.waker = w;
                    match r {
                        Err(()) => G::Panic,
                        Ok(Poll::Pending) => G::Pending,
                        Ok(Poll::Ready(Ok(v))) => G::Val(v),
                        Ok(Poll::Ready(Err(e))) => G::Err(re(&e)),
                    }
                };
                let gs = match &got {
                    G::Pending => "Pending".to_string(),
                    G::Val(v) => format!("Ready(tag {})", v.tag()),
                    G::Err(e) => format!("Ready(Err {})", e),
                    G::End => "Ready(None)".to_string(),
                    G::Panic => "panic".to_string(),
                };
                match (want, got) {
                    (W::Pending, G::Pending) => {}
                    (W::Val(t), G::Val(v)) => self.take(v, t, &what)?,
                    (W::Err(a), G::Err(b)) if a == b => {}
                    (W::Err(_), G::End) | (W::End, G::End) if is_stream => {}
                    (W::Panic, G::Panic) => {}
                    (w, g) => {
                        if let G::Val(v) = g {
                            self.expd(v.tag());
                            drop(v);
                        }
                        return Err(format!("{}: poll returned {} but the reference channel gives {:?}", what, gs, w));
                    }
                }
            }
            Call::RFutDrop(f) | Call::StreamDrop(f) => {
                let (st, owner) = if matches!(c, Call::RFutDrop(_)) {
                    let x = self.rfuts[f].as_ref().unwrap();
                    (x.st, x.owner)
                } else {
                    let x = self.streams[f].as_ref().unwrap();
                    (x.st, x.owner)
                };
                if let MF::Waiting(id) = st {
                    match self.comp.get(&id) {
                        Some(Completion::Got(t)) => {
                            // documented caveat: the value is consumed by the dropped future, dropped exactly once
                            let t = *t;
                            self.expd(t)
                        }
                        Some(_) => {}
                        None => assert!(self.m.cancel_recv(id)),
                    }
                }
                if matches!(c, Call::RFutDrop(_)) {
                    let x = self.rfuts[f].take().unwrap();
                    guarded(move || drop(x)).map_err(|_| unexpected_panic())?;
                } else {
                    let x = self.streams[f].take().unwrap();
                    guarded(move || drop(x)).map_err(|_| unexpected_panic())?;
                }
                self.receivers[owner].as_mut().unwrap().1 -= 1;
            }
            Call::CloneR(i, fl) => {
                self.m.clone_receiver();
                let h = guarded(|| self.rh(i).clone_as(fl)).map_err(|_| unexpected_panic())?;
                let e = Some((Box::new(h), 0));
                if let Some(p) = self.receivers.iter().position(|x| x.is_none()) {
                    self.receivers[p] = e;
                } else {
                    self.receivers.push(e);
                }
            }
            Call::DropR(i) => {
                self.m.drop_receiver(&mut done);
                let h = self.receivers[i].take().unwrap();
                guarded(move || drop(h)).map_err(|_| unexpected_panic())?;
            }
            Call::ConvR(i) => {
                let (h, b) = self.receivers[i].take().unwrap();
                assert_eq!(b, 0);
                let h2 = guarded(move || (*h).convert()).map_err(|_| unexpected_panic())?;
                self.receivers[i] = Some((Box::new(h2), 0));
            }
        }
        if self.live_s().is_empty() && self.live_r().is_empty() {
            // the last handle of the channel is gone: whatever is still buffered is destroyed with it
            let rest: Vec<Tag> = self.m.q.drain(..).collect();
            for t in rest {
                self.expd(t);
            }
        }
        self.settle(done, &before, &what)?;
        self.audit(&what)?;
        self.observe(&what)
    }

    /// ledger vs expectation, for every tag made so far
    fn audit(&self, what: &str) -> V {
        if !T::DROPS {
            return Ok(());
        }
        let l = ledger();
        if l.bad_count() > 0 {
            return Err(format!("{}: ledger: {}", what, l.bad_desc()));
        }
        for (t, n) in &self.made {
            let want = self.exp_drops.get(t).copied().unwrap_or(0);
            let got = l.dropped(*t);
            if got != want || l.born(*t) != *n {
                return Err(format!(
                    "{}: value with tag {} has been dropped {} time(s) but by the reference channel it must have been dropped {} time(s) at this point (born {})",
                    what, t, got, want, n
                ));
            }
        }
        Ok(())
    }

    fn observe(&self, what: &str) -> V {
        let m = &self.m;
        let ls = self.live_s();
        let lr = self.live_r();
        let bad = |name: &str, got: String, want: String| -> V {
            if got != want {
                Err(format!("{}: afterwards {}() = {} but the reference channel says {}", what, name, got, want))
            } else {
                Ok(())
            }
        };
        macro_rules! common {
            ($h:expr, $side:expr) => {{
                let h = $h;
                bad(concat!($side, ".len"), h.len().to_string(), m.len().to_string())?;
                bad(concat!($side, ".is_empty"), h.is_empty().to_string(), m.is_empty().to_string())?;
                bad(concat!($side, ".is_full"), h.is_full().to_string(), m.is_full().to_string())?;
                bad(concat!($side, ".capacity"), h.capacity().to_string(), m.capacity().to_string())?;
                bad(concat!($side, ".is_bounded"), h.is_bounded().to_string(), m.is_bounded().to_string())?;
                bad(concat!($side, ".sender_count"), h.sender_count().to_string(), m.sc.to_string())?;
                bad(concat!($side, ".receiver_count"), h.receiver_count().to_string(), m.rc.to_string())?;
                bad(concat!($side, ".is_closed"), h.is_closed().to_string(), m.closed().to_string())?;
                // wait list (hook; used as an extra cross-check of the model's waiting lists)
                let (n, _) = h.verif_waiters();
                bad(concat!($side, ".<waiters>"), n.to_string(), (m.ws.len() + m.wr.len()).to_string())?;
            }};
        }
        if !ls.is_empty() {
            let i = ls[self.step % ls.len()];
            let h = self.sh(i);
            if h.is_async() {
                common!(h.asy(), "async_sender");
                bad("async_sender.is_disconnected", h.asy().is_disconnected().to_string(), m.s_is_disconnected().to_string())?;
            } else {
                common!(h.sy(), "sender");
                bad("sender.is_disconnected", h.sy().is_disconnected().to_string(), m.s_is_disconnected().to_string())?;
            }
        }
        if !lr.is_empty() {
            let i = lr[self.step % lr.len()];
            let h = self.rh(i);
            if h.is_async() {
                common!(h.asy(), "async_receiver");
                bad("async_receiver.is_disconnected", h.asy().is_disconnected().to_string(), m.r_is_disconnected().to_string())?;
                bad("async_receiver.is_terminated", h.asy().is_terminated().to_string(), m.is_terminated().to_string())?;
            } else {
                common!(h.sy(), "receiver");
                bad("receiver.is_disconnected", h.sy().is_disconnected().to_string(), m.r_is_disconnected().to_string())?;
                bad("receiver.is_terminated", h.sy().is_terminated().to_string(), m.is_terminated().to_string())?;
            }
        }
        for s in self.streams.iter().flatten() {
            bad("stream.is_terminated", FusedStream::is_terminated(&*s.st_).to_string(), m.is_terminated().to_string())?;
        }
        Ok(())
    }

    /// drop everything: futures first, then handles; afterwards every value
    /// ever made must have been dropped exactly once
    fn finish(&mut self) -> V {
        for f in 0..self.sfuts.len() {
            if self.sfuts[f].is_some() {
                self.step += 1;
                self.trace.push(format!("SFutDrop({})", f));
                self.apply(Call::SFutDrop(f))?;
            }
        }
        for f in 0..self.rfuts.len() {
            if self.rfuts[f].is_some() {
                self.step += 1;
                self.trace.push(format!("RFutDrop({})", f));
                self.apply(Call::RFutDrop(f))?;
            }
        }
        for f in 0..self.streams.len() {
            if self.streams[f].is_some() {
                self.step += 1;
                self.trace.push(format!("StreamDrop({})", f));
                self.apply(Call::StreamDrop(f))?;
            }
        }
        for i in 0..self.senders.len() {
            if self.senders[i].is_some() {
                self.step += 1;
                self.trace.push(format!("DropS({})", i));
                self.apply(Call::DropS(i))?;
            }
        }
        for i in 0..self.receivers.len() {
            if self.receivers[i].is_some() {
                self.step += 1;
                self.trace.push(format!("DropR({})", i));
                self.apply(Call::DropR(i))?;
            }
        }
        let l = ledger();
        if l.bad_count() > 0 {
            return Err(format!("end of sequence: ledger: {}", l.bad_desc()));
        }
        // values inside leaked futures are never destroyed (unless a receiver took them): not the channel's doing
        let u: Vec<_> = l.unbalanced().into_iter().filter(|(t, b, d)| !(self.leaked_tags.contains(t) && d < b)).collect();
        if !u.is_empty() {
            let (t, b, d) = u[0];
            return Err(format!(
                "end of sequence (all futures and handles dropped): value with tag {} was created {} time(s) but dropped {} time(s) ({} tags unbalanced: leak or double drop)",
                t,
                b,
                d,
                u.len()
            ));
        }
        Ok(())
    }
}

struct Stats {
    seqs: u64,
    calls: u64,
    pairs: HashSet<u64>,
    kinds: HashMap<String, u64>,
    samples: Vec<J>,
}

struct Outcome {
    radix: Vec<usize>,
    err: Option<(String, Vec<String>)>,
    resolved: Vec<usize>,
    /// most operations waiting in the reference channel's list at once
    max_waiters: usize,
}

/// Runs one sequence given by choice indices (`choices[k]` indexes the enabled
/// list at step k; out-of-range stops the sequence there).
fn run_seq<T: Payload>(cap: Option<usize>, actor: bool, choices: &[usize], st: &mut Stats, keep_sample: bool) -> Outcome {
    run_seq_m::<T>(cap, actor, choices, st, keep_sample, false)
}
fn run_seq_m<T: Payload>(cap: Option<usize>, actor: bool, choices: &[usize], st: &mut Stats, keep_sample: bool, modulo: bool) -> Outcome {
    let l = ledger();
    l.reset();
    let mut w = World::<T>::new(cap, actor, choices.iter().fold(1u64, |h, c| hash_mix(h, *c as u64)));
    let mut radix = Vec::with_capacity(choices.len());
    let mut err = None;
    let mut resolved = Vec::with_capacity(choices.len());
    let mut max_waiters = 0usize;
    for (k, &ch) in choices.iter().enumerate() {
        let en = w.enabled();
        radix.push(en.len());
        let ch = if modulo && !en.is_empty() {
            // wide sequences: a third of the steps create a future, a third poll one that was never polled (it
            // registers), and for the first two thirds of the sequence nothing closes or drops handles
            let pref: Vec<usize> = match (wide(), (ch >> 10) % 3) {
                (true, 0) => en.iter().enumerate().filter(|(_, c)| matches!(c, Call::SFutNew(_) | Call::RFutNew(_))).map(|(i, _)| i).collect(),
                (true, 1) => en
                    .iter()
                    .enumerate()
                    .filter(|(_, c)| match c {
                        Call::SFutPoll(f, _) => w.sfuts[*f].as_ref().map_or(false, |x| matches!(x.st, MF::Zero)),
                        Call::RFutPoll(f, _) => w.rfuts[*f].as_ref().map_or(false, |x| matches!(x.st, MF::Zero)),
                        _ => false,
                    })
                    .map(|(i, _)| i)
                    .collect(),
                _ => vec![],
            };
            let mut idx = if pref.is_empty() { ch % en.len() } else { pref[ch % pref.len()] };
            if wide() && k < choices.len() * 2 / 3 {
                for t in 0..6 {
                    if !matches!(en[idx], Call::CloseS(_) | Call::CloseR(_) | Call::DropS(_) | Call::DropR(_)) {
                        break;
                    }
                    idx = (idx + 1 + (ch >> (3 + t)) % 7) % en.len();
                }
            }
            idx
        } else {
            ch
        };
        if ch >= en.len() {
            break;
        }
        resolved.push(ch);
        let c = en[ch];
        w.step = k;
        w.trace.push(format!("{:?}", c));
        BEAT.fetch_add(1, std::sync::atomic::Ordering::Relaxed);
        if let Ok(mut l) = CUR_CALL.lock() {
            *l = (k, format!("{:?}", c));
        }
        if std::env::var_os("SEQDIFF_VERBOSE").is_some() {
            eprintln!("  {:3} {:?}", k, c);
        }
        st.calls += 1;
        st.pairs.insert(hash_mix(w.m.fingerprint(), c.kind()));
        if let Err(e) = w.apply(c) {
            err = Some(e);
            break;
        }
        max_waiters = max_waiters.max(w.m.ws.len() + w.m.wr.len());
    }
    if err.is_none() {
        if let Err(e) = w.finish() {
            err = Some(e);
        }
    }
    st.seqs += 1;
    if keep_sample && st.samples.len() < 6 {
        st.samples.push(J::O(vec![
            ("class".into(), J::s(T::NAME)),
            ("capacity".into(), J::s(cap_name(cap))),
            ("async_ctor".into(), J::B(actor)),
            ("calls".into(), J::A(w.trace.iter().map(|s| J::s(s.clone())).collect())),
        ]));
    }
    let tr = w.trace.clone();
    if err.is_some() {
        // the world may be inconsistent: leak it rather than run more real code
        std::mem::forget(w);
    }
    Outcome { radix, err: err.map(|e| (e, tr)), resolved, max_waiters }
}

/// progress beacon: bumped before every call of every sequence; a watchdog thread turns a call that does not
/// return (nobody else exists who could complete it) into a report instead of a silent hang
static BEAT: std::sync::atomic::AtomicU64 = std::sync::atomic::AtomicU64::new(0);
static LAST_CASE: std::sync::Mutex<String> = std::sync::Mutex::new(String::new());
static CUR_CALL: std::sync::Mutex<(usize, String)> = std::sync::Mutex::new((0, String::new()));

fn write_case(path: &Option<String>, s: &str) {
    if let Ok(mut l) = LAST_CASE.lock() {
        l.clear();
        l.push_str(s);
    }
    if let Some(p) = path {
        use std::os::unix::fs::FileExt;
        thread_local! {static F: std::cell::RefCell<Option<std::fs::File>> = const { std::cell::RefCell::new(None) };}
        F.with(|f| {
            let mut f = f.borrow_mut();
            if f.is_none() {
                *f = Some(std::fs::OpenOptions::new().create(true).write(true).truncate(true).open(p).expect("case file"));
            }
            let mut b = s.as_bytes().to_vec();
            b.resize(b.len().max(2047) + 1, b' ');
            let _ = f.as_ref().unwrap().write_at(&b, 0);
        });
    }
}

fn choices_str(c: &[usize]) -> String {
    c.iter().map(|x| x.to_string()).collect::<Vec<_>>().join(",")
}

fn report(class: &str, cap: Option<usize>, actor: bool, choices: &[usize], e: &(String, Vec<String>), out: &mut J) {
    // the deterministic phases (large capacities, many handles, re-entrant payloads) are replayed as a whole
    let replay = if matches!(class, "reentrant" | "plain" | "Z") {
        "seqdiff --depth 0 --random 0 --bigfill q".to_string()
    } else {
        format!("seqdiff --replay --class {} --cap {} --actor {} --choices {}{}", class, cap_name(cap), actor as u8, choices_str(choices), format!("{}{}", if wide() { " --wide 1" } else { "" }, if FORGET.load(std::sync::atomic::Ordering::Relaxed) { " --forget 1" } else { "" }))
    };
    let v = J::O(vec![
        ("engine".into(), J::s("seqdiff")),
        ("class".into(), J::s(class)),
        ("capacity".into(), J::s(cap_name(cap))),
        ("async_ctor".into(), J::B(actor)),
        ("choices".into(), J::s(choices_str(choices))),
        ("calls".into(), J::A(e.1.iter().map(|s| J::s(s.clone())).collect())),
        ("what".into(), J::s(e.0.clone())),
        ("replay".into(), J::s(replay)),
    ]);
    if let J::O(m) = out {
        for (k, x) in m.iter_mut() {
            if k == "violations" {
                if let J::A(a) = x {
                    if a.len() < 20 {
                        a.push(v);
                    }
                    return;
                }
            }
        }
    }
}

/// the buffer of a bounded channel is allocated up front: keep it below 64 MiB for sized payloads
fn clamp_cap<T>(cap: Option<usize>) -> Option<usize> {
    let sz = std::mem::size_of::<T>();
    match cap {
        Some(c) if sz > 0 && c > 4096 => {
            let lim = (64usize << 20) / sz;
            Some(if c > lim { lim - (c % 7) } else { c })
        }
        c => c,
    }
}

/// Single-threaded differential on a large bounded channel with a plain payload: the buffer takes exactly `cap`
/// values, refuses the next one, stays FIFO across the ring wrap-around, and drains completely.
fn big_fill<T: Copy + PartialEq + std::fmt::Debug + Send + 'static>(cap: usize, async_ctor: bool, mk: impl Fn(usize) -> T, stats: &mut (u64, u64)) -> Result<(), String> {
    let (s, r) = if async_ctor {
        let (s, r) = kanal::bounded_async::<T>(cap);
        (s.to_sync(), r.to_sync())
    } else {
        kanal::bounded::<T>(cap)
    };
    stats.0 += 1;
    if let Ok(mut l) = CUR_CALL.lock() {
        *l = (0, format!("fill bounded({})", cap));
    }
    macro_rules! want {
        ($what:expr, $got:expr, $exp:expr) => {{
            let g = $got;
            let e = $exp;
            if g != e {
                return Err(format!("{}: returned {:?}, reference {:?}", $what, g, e));
            }
        }};
    }
    want!("capacity()", s.capacity(), cap);
    want!("receiver capacity()", r.capacity(), cap);
    want!("is_bounded()", s.is_bounded(), true);
    // phase 1: leave the ring's head in the middle so that the fill wraps around
    let pre = cap / 3;
    for k in 0..pre {
        want!(format!("try_send #{} holding {} values", k, k), s.try_send(mk(k)).map_err(|e| format!("{:?}", e)), Ok(true));
    }
    for k in 0..pre {
        want!(format!("try_recv #{}", k), r.try_recv().map_err(|e| format!("{:?}", e)), Ok(Some(mk(k))));
    }
    want!("len() after emptying", s.len(), 0);
    // phase 2: to the brim
    for k in 0..cap {
        if k & 0xfff == 0 {
            BEAT.fetch_add(1, std::sync::atomic::Ordering::Relaxed);
        }
        if k & (k.wrapping_sub(1)) == 0 {
            want!(format!("len() holding {} values", k), r.len(), k);
            want!(format!("is_full() holding {} of {} values", k, cap), s.is_full(), false);
        }
        want!(format!("try_send #{} holding {} of {} values (Ok(false) = refused)", k, k, cap), s.try_send(mk(k)).map_err(|e| format!("{:?}", e)), Ok(true));
    }
    stats.1 += (cap + pre) as u64;
    want!("len() when full", s.len(), cap);
    want!("is_full() when full", r.is_full(), true);
    want!("try_send on the full buffer", s.try_send(mk(cap)).map_err(|e| format!("{:?}", e)), Ok(false));
    want!("try_send_realtime on the full buffer", s.try_send_realtime(mk(cap)).map_err(|e| format!("{:?}", e)), Ok(false));
    want!("send_timeout(0) on the full buffer", s.send_timeout(mk(cap), std::time::Duration::ZERO).map_err(|e| format!("{:?}", e)), Err("Timeout".to_string()));
    want!("len() after refused sends", s.len(), cap);
    // one place freed, one value admitted
    want!("try_recv on the full buffer", r.try_recv().map_err(|e| format!("{:?}", e)), Ok(Some(mk(0))));
    want!("is_full() after one receive", r.is_full(), false);
    want!("try_send into the freed place", s.try_send(mk(cap)).map_err(|e| format!("{:?}", e)), Ok(true));
    want!("try_send on the refilled buffer", s.try_send(mk(cap + 1)).map_err(|e| format!("{:?}", e)), Ok(false));
    let mut v: Vec<T> = Vec::new();
    want!("drain_into count", r.drain_into(&mut v).map_err(|e| format!("{:?}", e)), Ok(cap));
    for (i, x) in v.iter().enumerate() {
        if *x != mk(i + 1) {
            return Err(format!("drain_into: position {} holds {:?}, reference {:?}", i, x, mk(i + 1)));
        }
    }
    want!("len() after drain", s.len(), 0);
    want!("try_recv after drain", r.try_recv().map_err(|e| format!("{:?}", e)), Ok(None));
    BEAT.fetch_add(1, std::sync::atomic::Ordering::Relaxed);
    Ok(())
}

/// Single-threaded differential on the handle counters with very many live handles of one side (all flavours):
/// after every step near a power of two the count equals the number of live handles, the other side sees no
/// disconnect, and the count comes back down to one as they are dropped.
fn many_handles(n: usize, senders: bool, stats: &mut (u64, u64)) -> Result<(), String> {
    enum H {
        S(#[allow(dead_code)] kanal::Sender<u16>),
        AS(#[allow(dead_code)] kanal::AsyncSender<u16>),
        R(#[allow(dead_code)] kanal::Receiver<u16>),
        AR(#[allow(dead_code)] kanal::AsyncReceiver<u16>),
    }
    let (s, r) = kanal::bounded::<u16>(2);
    let (a_s, a_r) = (s.clone_async(), r.clone_async());
    let mut live: Vec<Option<H>> = Vec::with_capacity(n);
    let count = |senders: bool| if senders { r.sender_count() as u64 } else { s.receiver_count() as u64 };
    let near_pow2 = |k: usize| (0..3).any(|d| (k + d).is_power_of_two() || (k >= d && (k - d).is_power_of_two()));
    if let Ok(mut l) = CUR_CALL.lock() {
        *l = (0, format!("many_handles n={} senders={}", n, senders));
    }
    let base = 2u64; // s + a_s (or r + a_r)
    for k in 0..n {
        if k & 0xfff == 0 {
            BEAT.fetch_add(1, std::sync::atomic::Ordering::Relaxed);
        }
        let h = match (senders, k % 4) {
            (true, 0) => H::S(s.clone()),
            (true, 1) => H::AS(s.clone_async()),
            (true, 2) => H::S(a_s.clone_sync()),
            (true, _) => H::AS(a_s.clone()),
            (false, 0) => H::R(r.clone()),
            (false, 1) => H::AR(r.clone_async()),
            (false, 2) => H::R(a_r.clone_sync()),
            (false, _) => H::AR(a_r.clone()),
        };
        live.push(Some(h));
        let alive = base + k as u64 + 1;
        if near_pow2(alive as usize) || k + 1 == n {
            stats.1 += 1;
            let c = count(senders);
            if c != alive {
                return Err(format!("returned {} with {} live handles of that side", c, alive));
            }
            let other = count(!senders);
            if other != 2 {
                return Err(format!("the other side's count reads {} with 2 live handles", other));
            }
            if senders {
                if r.is_disconnected() || r.is_closed() {
                    return Err(format!("receiver reports disconnected/closed with {} live senders", alive));
                }
                if let Err(e) = r.try_recv() {
                    return Err(format!("try_recv returned Err({:?}) with {} live senders", e, alive));
                }
            } else {
                if s.is_disconnected() || s.is_closed() {
                    return Err(format!("sender reports disconnected/closed with {} live receivers", alive));
                }
                match s.try_send(7) {
                    Ok(true) => {
                        let _ = r.try_recv();
                    }
                    o => return Err(format!("try_send returned {:?} with {} live receivers and an empty buffer", o, alive)),
                }
            }
        }
    }
    stats.0 = stats.0.max(base + n as u64);
    // drop in a scattered order (stride coprime to n), checking near powers of two
    let mut stride = (n / 2) | 1;
    while gcd(stride, n) != 1 {
        stride += 2;
    }
    let mut pos = 0usize;
    for k in 0..n {
        if k & 0xfff == 0 {
            BEAT.fetch_add(1, std::sync::atomic::Ordering::Relaxed);
        }
        pos = (pos + stride) % n;
        if live[pos].take().is_none() {
            return Err("harness: handle dropped twice".into());
        }
        let alive = base + (n - k - 1) as u64;
        if near_pow2(alive as usize) || k + 1 == n {
            stats.1 += 1;
            let c = count(senders);
            if c != alive {
                return Err(format!("returned {} with {} live handles of that side (while dropping)", c, alive));
            }
        }
    }
    if senders { r.is_disconnected() } else { s.is_disconnected() }.then(|| ()).map_or(Ok(()), |_| Err("disconnected although two handles of the side are alive".to_string()))
}

/// The handle counters are `u32`: keep u32::MAX handles of one side alive (cloned and forgotten: a handle that is
/// never dropped is a live handle), check the count and the other side's view, then create one more. Creating it may
/// be refused (the process aborts, as `Arc` and std's channels do) but if it returns, the other side must not see a
/// disconnect and the count must be right again once that handle is dropped.
fn count_limit(senders: bool) -> ! {
    use std::io::Write;
    let (s, r) = kanal::bounded::<u8>(1);
    let (a_s, a_r) = (s.clone_async(), r.clone_async());
    if let Ok(mut l) = CUR_CALL.lock() {
        *l = (0, format!("count_limit senders={}", senders));
    }
    let t0 = std::time::Instant::now();
    let target = u32::MAX as u64; // live handles of the side, including s/a_s (or r/a_r)
    let mut live = 2u64;
    let mut k = 0u64;
    while live < target {
        if k & 0xffff == 0 {
            BEAT.fetch_add(1, std::sync::atomic::Ordering::Relaxed);
        }
        match (senders, k & 3) {
            (true, 0) => std::mem::forget(s.clone()),
            (true, 1) => std::mem::forget(s.clone_async()),
            (true, 2) => std::mem::forget(a_s.clone_sync()),
            (true, _) => std::mem::forget(a_s.clone()),
            (false, 0) => std::mem::forget(r.clone()),
            (false, 1) => std::mem::forget(r.clone_async()),
            (false, 2) => std::mem::forget(a_r.clone_sync()),
            (false, _) => std::mem::forget(a_r.clone()),
        }
        k += 1;
        live += 1;
    }
    let count = || if senders { r.sender_count() as u64 } else { s.receiver_count() as u64 };
    let probe = || -> Option<String> {
        if senders {
            if r.is_disconnected() || r.is_closed() || r.is_terminated() {
                return Some(format!("receiver reports is_disconnected={} is_closed={}", r.is_disconnected(), r.is_closed()));
            }
            if let Err(e) = r.try_recv() {
                return Some(format!("try_recv returned Err({:?})", e));
            }
        } else {
            if s.is_disconnected() || s.is_closed() {
                return Some(format!("sender reports is_disconnected={} is_closed={}", s.is_disconnected(), s.is_closed()));
            }
            match s.try_send(1) {
                Ok(true) => {
                    let _ = r.try_recv();
                }
                o => return Some(format!("try_send into an empty buffer returned {:?}", o)),
            }
        }
        None
    };
    let side = if senders { "sender" } else { "receiver" };
    let mut viol: Vec<String> = vec![];
    if count() != target {
        viol.push(format!("{}_count() returned {} with {} live handles of that side", side, count(), target));
    }
    if let Some(p) = probe() {
        viol.push(format!("with {} live {}s: {}", target, side, p));
    }
    let line = |stage: &str, viol: &Vec<String>, t: f64| {
        let v: Vec<J> = viol
            .iter()
            .map(|w| J::O(vec![("engine".into(), J::s("seqdiff")), ("property".into(), J::s("C12")), ("what".into(), J::s(w.clone())), ("replay".into(), J::s(format!("seqdiff --count-limit {}", if senders { "s" } else { "r" })))]))
            .collect();
        let o = J::O(vec![
            ("engine".into(), J::s("seqdiff")),
            ("count_limit".into(), J::B(true)),
            ("side".into(), J::s(side)),
            ("stage".into(), J::s(stage)),
            ("live_handles_reached".into(), J::U(target)),
            ("sequences".into(), J::U(1)),
            ("calls".into(), J::U(target)),
            ("violations".into(), J::A(v)),
            ("nviolations".into(), J::U(viol.len() as u64)),
            ("wall_s".into(), J::F(t)),
        ]);
        println!("{}", o.to_string());
        let _ = std::io::stdout().flush();
    };
    if !viol.is_empty() {
        line("at_limit", &viol, t0.elapsed().as_secs_f64());
        std::process::exit(1);
    }
    // everything up to here is what the API can express; now the handle that does not fit
    line("at_limit", &viol, t0.elapsed().as_secs_f64());
    {
        let extra_s = if senders { Some(s.clone()) } else { None };
        let extra_r = if senders { None } else { Some(r.clone()) };
        if let Some(p) = probe() {
            viol.push(format!("with {} live {}s (all of them still alive): {}, {}_count() = {}", target + 1, side, p, side, count()));
        }
        drop((extra_s, extra_r));
    }
    if viol.is_empty() && count() != target {
        viol.push(format!("{}_count() returned {} with {} live handles of that side, after one more handle was created and dropped", side, count(), target));
    }
    line("beyond_limit", &viol, t0.elapsed().as_secs_f64());
    std::process::exit(if viol.is_empty() { 0 } else { 1 });
}

// ---- payloads whose destructor comes back to the channel ---------------------------------------
// A message may carry a handle of the very channel it travels through ("reply to me"), or its destructor may look
// at the channel. Wherever the channel itself destroys such a value (close, refused / failed / timed-out sends,
// dropped futures) the destructor takes the channel lock: if the channel ran it while holding that lock, the
// call never returns. Single-threaded, so a call that does not return is stuck for good (watchdog -> `hang`).
mod reent {
    use super::*;
    use std::sync::atomic::{AtomicU64, Ordering::SeqCst};
    pub static DROPS: AtomicU64 = AtomicU64::new(0);
    pub enum Inner {
        S(#[allow(dead_code)] Sender<RMsg>),
        AS(#[allow(dead_code)] AsyncSender<RMsg>),
        R(#[allow(dead_code)] Receiver<RMsg>),
        AR(#[allow(dead_code)] AsyncReceiver<RMsg>),
        /// looks at the channel in its destructor and must not keep the channel alive: forgets its handle... no:
        /// holds a handle like the others, and additionally calls observers
        Probe(Sender<RMsg>),
    }
    pub struct RMsg {
        #[allow(dead_code)]
        pub id: u32,
        pub inner: Option<Inner>,
        /// the destructor panics (after it has been counted)
        pub bomb: bool,
    }
    impl Drop for RMsg {
        fn drop(&mut self) {
            DROPS.fetch_add(1, SeqCst);
            if let Some(Inner::Probe(s)) = &self.inner {
                let _ = (s.len(), s.is_closed(), s.receiver_count());
            }
            if self.bomb {
                panic!("destructor of message {} panics", self.id);
            }
            // the handle inside (if any) is dropped right after this body: Drop for Sender/Receiver locks the channel
        }
    }
    pub const KINDS: [&str; 5] = ["Sender", "AsyncSender", "Receiver", "AsyncReceiver", "Sender + observers in drop"];
    pub fn mk(k: usize, id: u32, s: &Sender<RMsg>, r: &Receiver<RMsg>) -> RMsg {
        let inner = match k {
            0 => Inner::S(s.clone()),
            1 => Inner::AS(s.clone_async()),
            2 => Inner::R(r.clone()),
            3 => Inner::AR(r.clone_async()),
            _ => Inner::Probe(s.clone()),
        };
        RMsg { id, inner: Some(inner), bomb: false }
    }
    pub fn drops() -> u64 {
        DROPS.load(SeqCst)
    }
    pub fn bomb(id: u32) -> RMsg {
        RMsg { id, inner: None, bomb: true }
    }
    pub fn dud(id: u32) -> RMsg {
        RMsg { id, inner: None, bomb: false }
    }
}

/// Destructors that panic (drop bombs, guards that assert in `Drop`): wherever the channel destroys such a value on
/// the caller's behalf the panic travels through the channel call; the program survives it (catch_unwind here, a
/// task boundary or a dying thread elsewhere) and carries on: drops the future, uses and drops the handles. Each
/// value must still have been destroyed exactly once, and the channel must still answer.
fn panicking_destructors(stats: &mut (u64, u64)) -> Result<(), String> {
    use reent::*;
    let cell = WakeCell::new(2, None);
    let w = waker_of(&cell);
    let call = |what: String| {
        BEAT.fetch_add(1, std::sync::atomic::Ordering::Relaxed);
        if let Ok(mut l) = CUR_CALL.lock() {
            *l = (0, what);
        }
    };
    // runs `f`, which may panic; returns what it returned (or "panicked") and checks the number of destructor runs
    macro_rules! step {
        ($desc:expr, $e:expr, $drops:expr) => {{
            let d0 = drops();
            let desc: String = $desc;
            call(desc.clone());
            let got = match catch_unwind(AssertUnwindSafe(|| format!("{:?}", $e))) {
                Ok(s) => s,
                Err(_) => "panicked".to_string(),
            };
            stats.1 += 1;
            let dd = drops() - d0;
            if dd != $drops {
                return Err(format!("{}: the call ended with {} and {} destructor run(s) had happened, the reference channel says {}", desc, got, dd, $drops));
            }
            got
        }};
    }
    for cap in [Some(1usize), Some(3), None, Some(0)] {
        let capn = cap_name(cap);
        let ctx = |c: &str| format!("panicking destructor, capacity {}: {}", capn, c);
        let new = || match cap {
            None => kanal::unbounded::<RMsg>(),
            Some(c) => kanal::bounded::<RMsg>(c),
        };
        stats.0 += 1;
        // refused / timed-out sends on a full buffer, futures on a full buffer
        if let Some(c) = cap {
            let (s, r) = new();
            let a_s = s.clone_async();
            for i in 0..c {
                step!(ctx("try_send (fill)"), s.try_send(dud(i as u32)).map_err(|_| ()), 0);
            }
            step!(ctx("try_send refused: the value is destroyed inside the call"), s.try_send(bomb(20)).map_err(|_| ()), 1);
            step!(ctx("try_send_realtime refused"), s.try_send_realtime(bomb(21)).map_err(|_| ()), 1);
            step!(ctx("send_timeout(0) timing out"), s.send_timeout(bomb(22), Duration::ZERO).map_err(|e| format!("{:?}", e)), 1);
            {
                let mut f = Box::pin(a_s.send(bomb(23)));
                let mut cx = Context::from_waker(&w);
                step!(ctx("polling a send future on the full channel"), f.as_mut().poll(&mut cx).map_err(|_| ()), 0);
                step!(ctx("dropping the pending send future"), drop(f), 1);
            }
            {
                let mut f = Box::pin(a_s.send(bomb(24)));
                let mut cx = Context::from_waker(&w);
                step!(ctx("polling a send future on the full channel"), f.as_mut().poll(&mut cx).map_err(|_| ()), 0);
                step!(ctx("close() with duds buffered and a pending send future"), r.close().map_err(|_| ()), c as u64);
                step!(ctx("polling the send future released by close(): its value is destroyed inside poll"), f.as_mut().poll(&mut cx).map_err(|e| format!("{:?}", e)), 1);
                step!(ctx("dropping that send future afterwards"), drop(f), 0);
            }
            step!(ctx("is_closed() afterwards"), s.is_closed(), 0);
        }
        // sends on a closed / half-closed channel
        for half in [false, true] {
            let (s, r) = new();
            let a_s = s.clone_async();
            let how = if half { "after the last receiver was dropped" } else { "after close()" };
            if half {
                step!(ctx("dropping the only receiver"), drop(r), 0);
            } else {
                step!(ctx("close()"), r.close().map_err(|_| ()), 0);
            }
            step!(ctx(&format!("try_send {}", how)), s.try_send(bomb(30)).map_err(|e| format!("{:?}", e)), 1);
            step!(ctx(&format!("send {}", how)), s.send(bomb(31)).map_err(|e| format!("{:?}", e)), 1);
            step!(ctx(&format!("send_timeout {}", how)), s.send_timeout(bomb(32), Duration::from_millis(1)).map_err(|e| format!("{:?}", e)), 1);
            let mut o = Some(bomb(33));
            step!(ctx(&format!("send_option_timeout {} (hands the value back)", how)), s.send_option_timeout(&mut o, Duration::ZERO).map_err(|e| format!("{:?}", e)), 0);
            step!(ctx("dropping the value handed back"), drop(o.take()), 1);
            {
                let mut f = Box::pin(a_s.send(bomb(34)));
                let mut cx = Context::from_waker(&w);
                step!(ctx(&format!("first poll of a send future {}: its value is destroyed inside poll", how)), f.as_mut().poll(&mut cx).map_err(|e| format!("{:?}", e)), 1);
                step!(ctx("dropping that send future afterwards"), drop(f), 0);
            }
            {
                let f = Box::pin(a_s.send(bomb(35)));
                step!(ctx(&format!("dropping a never-polled send future {}", how)), drop(f), 1);
            }
            step!(ctx("sender_count() afterwards"), s.sender_count() > 0 || !half, 0);
        }
        // close() and the last handle going away with a bomb in the buffer (one bomb only: a second panic while
        // unwinding would abort the process, which is the language's rule, not the channel's)
        if cap != Some(0) {
            for last_handle in [false, true] {
                let (s, r) = new();
                let n = cap.unwrap_or(3).min(3);
                for i in 0..n {
                    step!(ctx("try_send (fill)"), s.try_send(if i == n / 2 { bomb(40) } else { dud(41 + i as u32) }).map_err(|_| ()), 0);
                }
                if last_handle {
                    step!(ctx("dropping the only sender"), drop(s), 0);
                    step!(ctx(&format!("dropping the last handle with {} buffered values, one of them a bomb", n)), drop(r), n as u64);
                } else {
                    step!(ctx(&format!("close() with {} buffered values, one of them a bomb", n)), s.close().map_err(|_| ()), n as u64);
                    step!(ctx("is_closed() afterwards"), r.is_closed(), 0);
                    step!(ctx("try_recv afterwards"), r.try_recv().map(|x| x.is_some()).map_err(|e| format!("{:?}", e)), 0);
                    step!(ctx("dropping the handles"), drop((s, r)), 0);
                }
            }
        }
        // a receive future served by hand-off and dropped unpolled
        {
            let (s, r) = new();
            let a_r = r.clone_async();
            let mut f = Box::pin(a_r.recv());
            let mut cx = Context::from_waker(&w);
            step!(ctx("polling a receive future on the empty channel"), f.as_mut().poll(&mut cx).map(|x| x.is_ok()), 0);
            step!(ctx("try_send into the waiting receive future"), s.try_send(bomb(50)).map_err(|_| ()), 0);
            step!(ctx("dropping the receive future that holds the delivered bomb"), drop(f), 1);
            step!(ctx("try_send afterwards"), s.try_send(dud(51)).map_err(|_| ()), if cap == Some(0) { 1 } else { 0 });
            step!(ctx("dropping the handles"), drop((s, r, a_r)), if cap == Some(0) { 0 } else { 1 });
        }
    }
    Ok(())
}

fn reentrant_payloads(stats: &mut (u64, u64)) -> Result<(), String> {
    use reent::*;
    let cell = WakeCell::new(1, None);
    let w = waker_of(&cell);
    let call = |what: String| {
        BEAT.fetch_add(1, std::sync::atomic::Ordering::Relaxed);
        if let Ok(mut l) = CUR_CALL.lock() {
            *l = (0, what);
        }
    };
    macro_rules! step {
        ($desc:expr, $e:expr, $exp:expr, $drops:expr) => {{
            let d0 = drops();
            let desc: String = $desc;
            call(desc.clone());
            let got = format!("{:?}", $e);
            stats.1 += 1;
            if got != $exp {
                return Err(format!("{}: returned {} but the reference channel returns {}", desc, got, $exp));
            }
            let dd = drops() - d0;
            if dd != $drops {
                return Err(format!("{}: {} message(s) had been destroyed when the call returned, the reference channel says {}", desc, dd, $drops));
            }
        }};
    }
    for k in 0..KINDS.len() {
        let kn = KINDS[k];
        for cap in [None, Some(4usize), Some(1), Some(0)] {
            let capn = cap_name(cap);
            let ctx = |c: &str| format!("reentrant payload (each message holds a {} of its own channel), capacity {}: {}", kn, capn, c);
            let new = || match cap {
                None => kanal::unbounded::<RMsg>(),
                Some(c) => kanal::bounded::<RMsg>(c),
            };
            stats.0 += 1;
            // 1. close() with buffered messages: all of them destroyed by the time it returns
            if cap != Some(0) {
                for closer in 0..4 {
                    let (s, r) = new();
                    let n = cap.unwrap_or(3).min(3);
                    for i in 0..n {
                        step!(ctx("try_send"), s.try_send(mk(k, i as u32, &s, &r)).map_err(|_| ()), "Ok(true)", 0);
                    }
                    let cn = ["Sender::close()", "Receiver::close()", "AsyncSender::close()", "AsyncReceiver::close()"][closer];
                    let (a_s, a_r) = (s.clone_async(), r.clone_async());
                    step!(
                        ctx(&format!("{} with {} buffered message(s)", cn, n)),
                        match closer {
                            0 => s.close(),
                            1 => r.close(),
                            2 => a_s.close(),
                            _ => a_r.close(),
                        }
                        .map_err(|_| ()),
                        "Ok(())",
                        n as u64
                    );
                    step!(ctx("is_closed() after close"), s.is_closed(), "true", 0);
                    // 2. sends on the closed channel destroy (or hand back) their value
                    step!(ctx("try_send on the closed channel"), s.try_send(mk(k, 10, &s, &r)).map_err(|e| format!("{:?}", e)), "Err(\"Closed\")", 1);
                    step!(ctx("try_send_realtime on the closed channel"), s.try_send_realtime(mk(k, 11, &s, &r)).map_err(|e| format!("{:?}", e)), "Err(\"Closed\")", 1);
                    step!(ctx("send on the closed channel"), s.send(mk(k, 12, &s, &r)).map_err(|e| format!("{:?}", e)), "Err(\"Closed\")", 1);
                    step!(ctx("send_timeout(0) on the closed channel"), s.send_timeout(mk(k, 13, &s, &r), Duration::ZERO).map_err(|e| format!("{:?}", e)), "Err(\"Closed\")", 1);
                    let mut o = Some(mk(k, 14, &s, &r));
                    step!(ctx("send_option_timeout(0) on the closed channel"), s.send_option_timeout(&mut o, Duration::ZERO).map_err(|e| format!("{:?}", e)), "Err(\"Closed\")", 0);
                    step!(ctx("dropping the value handed back"), drop(o.take()), "()", 1);
                    {
                        let mut f = Box::pin(a_s.send(mk(k, 15, &s, &r)));
                        let mut cx = Context::from_waker(&w);
                        step!(ctx("polling a send future on the closed channel"), f.as_mut().poll(&mut cx).map_err(|e| format!("{:?}", e)), "Ready(Err(\"Closed\"))", 1);
                    }
                }
            }
            // 3. refused and timed-out sends on a full buffer; a pending send future dropped
            if let Some(c) = cap {
                let (s, r) = new();
                let a_s = s.clone_async();
                for i in 0..c {
                    step!(ctx("try_send"), s.try_send(mk(k, i as u32, &s, &r)).map_err(|_| ()), "Ok(true)", 0);
                }
                step!(ctx("try_send refused (full, no receiver waits)"), s.try_send(mk(k, 20, &s, &r)).map_err(|_| ()), "Ok(false)", 1);
                step!(ctx("try_send_realtime refused"), s.try_send_realtime(mk(k, 21, &s, &r)).map_err(|_| ()), "Ok(false)", 1);
                step!(ctx("send_timeout(0) timing out"), s.send_timeout(mk(k, 22, &s, &r), Duration::ZERO).map_err(|e| format!("{:?}", e)), "Err(\"Timeout\")", 1);
                let mut o = Some(mk(k, 23, &s, &r));
                step!(ctx("send_option_timeout(0) timing out"), s.send_option_timeout(&mut o, Duration::ZERO).map_err(|e| format!("{:?}", e)), "Err(\"Timeout\")", 0);
                step!(ctx("try_send_option refused"), s.try_send_option(&mut o).map_err(|_| ()), "Ok(false)", 0);
                step!(ctx("dropping the value handed back"), drop(o.take()), "()", 1);
                {
                    let mut f = Box::pin(a_s.send(mk(k, 24, &s, &r)));
                    let mut cx = Context::from_waker(&w);
                    step!(ctx("polling a send future on the full channel"), f.as_mut().poll(&mut cx).map_err(|_| ()), "Pending", 0);
                    step!(ctx("dropping the pending send future (it owns its message)"), drop(f), "()", 1);
                }
                {
                    // a pending send future released by close(): Err, message destroyed
                    let mut f = Box::pin(a_s.send(mk(k, 25, &s, &r)));
                    let mut cx = Context::from_waker(&w);
                    step!(ctx("polling a send future on the full channel"), f.as_mut().poll(&mut cx).map_err(|_| ()), "Pending", 0);
                    step!(ctx(&format!("close() with {} buffered message(s) and a pending send future", c)), r.close().map_err(|_| ()), "Ok(())", c as u64);
                    step!(ctx("polling the send future released by close()"), f.as_mut().poll(&mut cx).map_err(|e| format!("{:?}", e)), "Ready(Err(\"Closed\"))", 1);
                }
            }
            // 4. a receive future that was served by hand-off and is dropped without being polled again
            {
                let (s, r) = new();
                let a_r = r.clone_async();
                let mut f = Box::pin(a_r.recv());
                let mut cx = Context::from_waker(&w);
                step!(ctx("polling a receive future on the empty channel"), f.as_mut().poll(&mut cx).map(|x| x.is_ok()), "Pending", 0);
                step!(ctx("try_send into the waiting receive future"), s.try_send(mk(k, 30, &s, &r)).map_err(|_| ()), "Ok(true)", 0);
                step!(ctx("dropping the receive future that holds the delivered message"), drop(f), "()", 1);
                // and the ordinary way: received, then dropped by the caller
                let mut f = Box::pin(a_r.recv());
                step!(ctx("polling a receive future on the empty channel"), f.as_mut().poll(&mut cx).map(|x| x.is_ok()), "Pending", 0);
                step!(ctx("try_send into the waiting receive future"), s.try_send(mk(k, 31, &s, &r)).map_err(|_| ()), "Ok(true)", 0);
                step!(ctx("polling the served receive future"), f.as_mut().poll(&mut cx).map(|x| x.map(|m| m.id).map_err(|_| ())), "Ready(Ok(31))", 1);
            }
            // 5. drain_into moves messages out without destroying any
            if cap != Some(0) {
                let (s, r) = new();
                let n = cap.unwrap_or(3).min(3);
                for i in 0..n {
                    step!(ctx("try_send"), s.try_send(mk(k, i as u32, &s, &r)).map_err(|_| ()), "Ok(true)", 0);
                }
                let mut v = Vec::new();
                step!(ctx("drain_into"), r.drain_into(&mut v).map_err(|_| ()), format!("Ok({})", n), 0);
                step!(ctx("dropping the drained messages"), drop(v), "()", n as u64);
            }
        }
    }
    Ok(())
}

fn gcd(a: usize, b: usize) -> usize {
    if b == 0 {
        a
    } else {
        gcd(b, a % b)
    }
}

fn main() {
    let a = kverif::args();
    let seed = kverif::arg_u64(&a, "seed", 1);
    let depth = kverif::arg_u64(&a, "depth", 3) as usize;
    let shard = kverif::arg_u64(&a, "shard", 0);
    let nshards = kverif::arg_u64(&a, "nshards", 1);
    let nrandom = kverif::arg_u64(&a, "random", 2000);
    let maxlen = kverif::arg_u64(&a, "maxlen", 60) as usize;
    let stop_after = kverif::arg_u64(&a, "stop-after", 5);
    let casefile = a.get("casefile").cloned();
    let bigcaps = kverif::arg_u64(&a, "bigcaps", 0) != 0;
    let wide_arg = !a.contains_key("replay") && kverif::arg_u64(&a, "wide", 0) != 0;
    FORGET.store(kverif::arg_u64(&a, "forget", 0) != 0, std::sync::atomic::Ordering::Relaxed);
    let bigfill = kverif::arg_str(&a, "bigfill", "").to_string();
    let classes_arg = kverif::arg_str(&a, "classes", "P8,PB,L40,LS,S4,S1,Z0,ZA,L16,N8,N40,N4,A32,P0").to_string();
    let classes: Vec<&str> = classes_arg.split(',').collect();
    let caps_arg = kverif::arg_str(&a, "caps", "0,1,2,u").to_string();
    let caps: Vec<Option<usize>> = caps_arg.split(',').map(parse_cap).collect();
    std::panic::set_hook(Box::new(|_| {}));
    if !cfg!(miri) {
        let grace = std::time::Duration::from_millis(kverif::arg_u64(&a, "grace-ms", 20_000));
        std::thread::spawn(move || {
            let mut last = (u64::MAX, std::time::Instant::now());
            loop {
                std::thread::sleep(std::time::Duration::from_millis(200));
                let b = BEAT.load(std::sync::atomic::Ordering::Relaxed);
                if b != last.0 {
                    last = (b, std::time::Instant::now());
                } else if b != 0 && last.1.elapsed() > grace {
                    let case = LAST_CASE.lock().map(|l| l.trim().to_string()).unwrap_or_default();
                    let (k, call) = CUR_CALL.lock().map(|l| l.clone()).unwrap_or_default();
                    println!("{}", J::O(vec![("engine".into(), J::s("seqdiff")), ("hang".into(), J::B(true)), ("step".into(), J::U(k as u64)), ("call".into(), J::s(call)), ("case".into(), J::s(case))]).to_string());
                    std::process::exit(87);
                }
            }
        });
    }
    if let Some(side) = a.get("count-limit") {
        count_limit(side == "s");
    }
    payload::init(if cfg!(miri) { 1 << 10 } else { 1 << 12 });
    kverif::fp::install();
    let hits0 = kverif::fp::hits();
    let t0 = std::time::Instant::now();
    let mut st = Stats { seqs: 0, calls: 0, pairs: HashSet::new(), kinds: HashMap::new(), samples: vec![] };
    let mut out = J::obj();
    out.set("violations", J::A(vec![]));
    let mut nviol = 0u64;

    if a.contains_key("replay") {
        let class = kverif::arg_str(&a, "class", "P8");
        let cap = parse_cap(kverif::arg_str(&a, "cap", "0"));
        let actor = kverif::arg_u64(&a, "actor", 0) == 1;
        let choices: Vec<usize> = kverif::arg_str(&a, "choices", "").split(',').filter(|s| !s.is_empty()).map(|s| s.parse().unwrap()).collect();
        let modulo = a.contains_key("modulo");
        WIDE.store(a.contains_key("wide"), std::sync::atomic::Ordering::Relaxed);
        fn go<T: Payload>(cap: Option<usize>, actor: bool, ch: &[usize], st: &mut Stats, m: bool) -> Outcome {
            run_seq_m::<T>(cap, actor, ch, st, true, m)
        }
        let o = with_class!(class, go(cap, actor, &choices, &mut st, modulo));
        match o.err {
            Some(e) => {
                println!("REPLAY violated: {}", e.0);
                for (i, c) in e.1.iter().enumerate() {
                    println!("  {:3} {}", i, c);
                }
                std::process::exit(1);
            }
            None => {
                println!("REPLAY held");
                std::process::exit(0);
            }
        }
    }

    // ---- bounded-exhaustive part -------------------------------------------------
    let mut exhaustive_seqs = 0u64;
    if depth > 0 {
        let mut combo = 0u64;
        for (ci, &cap) in caps.iter().enumerate() {
            for actor in [false, true] {
                // the class rotates with the combination so every class meets every capacity across shards/seeds
                let class = classes[((ci as u64 * 2 + actor as u64 + seed) % classes.len() as u64) as usize];
                combo += 1;
                let mut ch = vec![0usize; depth];
                let mut leaf = 0u64;
                'odo: loop {
                    // shard on the leaf index at depth 2 (prefix of length 2)
                    let pref = ch[0] as u64 * 131 + if depth > 1 { ch[1] as u64 } else { 0 };
                    let mine = nshards <= 1 || pref % nshards == shard;
                    let o = if mine {
                        write_case(&casefile, &format!("exh class={} cap={} actor={} choices={}", class, cap_name(cap), actor as u8, choices_str(&ch)));
                        fn go<T: Payload>(cap: Option<usize>, actor: bool, ch: &[usize], st: &mut Stats, keep: bool) -> Outcome {
                            run_seq::<T>(cap, actor, ch, st, keep)
                        }
                        let keep = leaf % 9973 == 17;
                        leaf += 1;
                        exhaustive_seqs += 1;
                        with_class!(class, go(cap, actor, &ch, &mut st, keep))
                    } else {
                        // only learn the radixes of the first two positions
                        fn go<T: Payload>(cap: Option<usize>, actor: bool, ch: &[usize], st: &mut Stats) -> Outcome {
                            let n = ch.len().min(2);
                            let mut o = run_seq::<T>(cap, actor, &ch[..n], st, false);
                            st.seqs -= 1;
                            o.err = None;
                            o
                        }
                        let mut dummy = Stats { seqs: 1, calls: 0, pairs: HashSet::new(), kinds: HashMap::new(), samples: vec![] };
                        with_class!(class, go(cap, actor, &ch, &mut dummy))
                    };
                    if let Some(e) = &o.err {
                        nviol += 1;
                        report(class, cap, actor, &ch[..e.1.len().min(ch.len())], e, &mut out);
                        if nviol >= stop_after {
                            break 'odo;
                        }
                    }
                    // odometer increment: last executed position first
                    let mut pos = if mine { o.radix.len().min(depth) } else { o.radix.len().min(2).min(depth) };
                    // positions >= pos were not reached (sequence ended early): reset them
                    for x in ch.iter_mut().skip(pos) {
                        *x = 0;
                    }
                    loop {
                        if pos == 0 {
                            break 'odo;
                        }
                        pos -= 1;
                        ch[pos] += 1;
                        let r = o.radix.get(pos).copied().unwrap_or(0);
                        if ch[pos] < r {
                            break;
                        }
                        ch[pos] = 0;
                    }
                }
                let _ = combo;
            }
        }
    }

    // ---- random part ----------------------------------------------------------------
    let mut rng = Rng::new(seed ^ shard.wrapping_mul(0x1000_0001));
    let mut random_seqs = 0u64;
    let mut big_seqs = 0u64;
    let mut wide_seqs = 0u64;
    let mut max_wait = 0usize;
    for n in 0..nrandom {
        if nviol >= stop_after {
            break;
        }
        let class = classes[(rng.below(classes.len() as u64)) as usize];
        let cap = caps[rng.below(caps.len() as u64) as usize];
        let cap = if rng.chance(1, 8) { Some(*rng.pick(&[3usize, 4, 5, 6, 7, 16, 31, 32, 33, 34, 40, 64])) } else { cap };
        // very large capacities: the buffer is allocated up front, so the size is limited per payload class inside go()
        let cap = if bigcaps && rng.chance(1, 12) { Some(((1usize << (8 + rng.below(54))) as i128 + *rng.pick(&[-1i128, 0, 1, 5])) as usize) } else { cap };
        let actor = rng.chance(1, 2);
        let is_wide = (bigcaps || wide_arg) && rng.chance(1, 8);
        WIDE.store(is_wide, std::sync::atomic::Ordering::Relaxed);
        let len = if is_wide { 60 + rng.below(240) as usize } else { 10 + rng.below((maxlen.max(11) - 10) as u64) as usize };
        // choices are drawn large and reduced modulo the radix at replay time: pre-run to fix them
        let raw: Vec<usize> = (0..len).map(|_| rng.below(1 << 20) as usize).collect();
        fn go<T: Payload>(cap: Option<usize>, actor: bool, raw: &[usize], st: &mut Stats, casefile: &Option<String>, keep: bool) -> (Outcome, Vec<usize>, Option<usize>) {
            let cap = clamp_cap::<T>(cap);
            write_case(casefile, &format!("rnd class={} cap={} actor={} modulo=1{} choices={}", T::NAME, cap_name(cap), actor as u8, if wide() { " wide=1" } else { "" }, choices_str(raw)));
            let o = run_seq_m::<T>(cap, actor, raw, st, keep, true);
            let ch = o.resolved.clone();
            (o, ch, cap)
        }
        let (o, ch, cap) = with_class!(class, go(cap, actor, &raw, &mut st, &casefile, n % 499 == 3));
        if cap.map_or(false, |c| c > 4096) {
            big_seqs += 1;
        }
        if is_wide {
            wide_seqs += 1;
            max_wait = max_wait.max(o.max_waiters);
        }
        random_seqs += 1;
        if let Some(e) = &o.err {
            nviol += 1;
            report(class, cap, actor, &ch[..e.1.len().min(ch.len())], e, &mut out);
        }
    }

    // ---- fill-to-the-brim part: large capacities -------------------------------------------
    // "m": only the phases with unusual destructors (small enough for Miri / the sanitizers)
    let big_phases = bigfill == "q" || bigfill == "t";
    let mut fill_stats = (0u64, 0u64);
    if big_phases && nviol < stop_after {
        let mut caps: Vec<usize> = vec![1000, 4097, 65_535, 65_536, 65_537, 100_001, (1 << 20) - 1, 1 << 20, (1 << 20) + 5, (1 << 21) + 1, (1 << 22) + 3];
        if bigfill == "t" {
            caps.extend_from_slice(&[(1 << 23) + 1, (1 << 24) + 9, (1 << 25) - 1]);
        }
        for (i, &cap) in caps.iter().enumerate() {
            let r = if i % 2 == 0 { big_fill::<u64>(cap, i % 4 == 0, |k| k as u64 ^ 0x5a5a, &mut fill_stats) } else { big_fill::<()>(cap, i % 4 == 1, |_| (), &mut fill_stats) };
            let r = r.and_then(|_| if cap <= (1 << 21) + 1 { big_fill::<[u8; 3]>(cap, i % 4 >= 2, |k| [k as u8, (k >> 8) as u8, (k >> 16) as u8], &mut fill_stats) } else { Ok(()) });
            if let Err(e) = r {
                nviol += 1;
                let what = format!("TrySend/fill on bounded({}): {}", cap, e);
                report("plain", Some(cap), false, &[], &(what, vec![format!("fill bounded({}) to the brim with try_send, probe, drain", cap)]), &mut out);
                break;
            }
        }
        // an unbounded channel grows through every doubling of its buffer and stays FIFO
        {
            let n: usize = if bigfill == "t" { 1 << 24 } else { (1 << 22) + 3 };
            for async_ctor in [false, true] {
                let (s, r) = if async_ctor {
                    let (s, r) = kanal::unbounded_async::<u64>();
                    (s.to_sync(), r.to_sync())
                } else {
                    kanal::unbounded::<u64>()
                };
                fill_stats.0 += 1;
                let mut bad: Option<String> = None;
                for k in 0..n {
                    if k & 0xfff == 0 {
                        BEAT.fetch_add(1, std::sync::atomic::Ordering::Relaxed);
                    }
                    // keep the ring's head moving: every 5th step takes one value out again
                    let r1 = if k % 2 == 0 { s.try_send(k as u64) } else { s.try_send_realtime(k as u64) };
                    if !matches!(r1, Ok(true)) {
                        bad = Some(format!("try_send #{} on an unbounded channel holding {} values: returned {:?}, reference Ok(true)", k, s.len(), r1));
                        break;
                    }
                }
                fill_stats.1 += n as u64;
                if bad.is_none() && (s.len() != n || s.is_full() || s.is_bounded()) {
                    bad = Some(format!("unbounded channel after {} sends: len() {}, is_full() {}, is_bounded() {}", n, s.len(), s.is_full(), s.is_bounded()));
                }
                if bad.is_none() {
                    for k in 0..n / 2 {
                        match r.try_recv() {
                            Ok(Some(v)) if v == k as u64 => {}
                            o => {
                                bad = Some(format!("try_recv #{} from an unbounded channel: returned {:?}, reference Ok(Some({}))", k, o, k));
                                break;
                            }
                        }
                    }
                }
                if bad.is_none() {
                    let mut v = Vec::new();
                    match r.drain_into(&mut v) {
                        Ok(c) if c == n - n / 2 && v.iter().enumerate().all(|(i, x)| *x == (n / 2 + i) as u64) => {}
                        o => bad = Some(format!("drain_into of the remaining {} values: returned {:?} / out of order", n - n / 2, o)),
                    }
                }
                if let Some(e) = bad {
                    nviol += 1;
                    report("plain", None, async_ctor, &[], &(format!("TrySend/fill on unbounded: {}", e), vec![]), &mut out);
                    break;
                }
            }
        }
        // the configured capacity is reported back, whatever it is (no buffer is allocated for a zero-sized payload)
        for k in 8..63u32 {
            for d in [-1i128, 0, 3] {
                let cap = ((1u128 << k) as i128 + d) as usize;
                let (s, r) = kanal::bounded::<()>(cap);
                let (s2, r2) = kanal::bounded_async::<()>(cap);
                fill_stats.0 += 1;
                let got = [s.capacity(), r.capacity(), s2.capacity(), r2.capacity()];
                if got.iter().any(|g| *g != cap) || !s.is_bounded() || s.is_full() || !s.is_empty() {
                    nviol += 1;
                    let what = format!("bounded({}).capacity(): returned {:?}, is_bounded {}, is_full {}, reference {}", cap, got, s.is_bounded(), s.is_full(), cap);
                    report("Z", Some(cap), false, &[], &(what, vec![]), &mut out);
                    break;
                }
                match s.try_send(()) {
                    Ok(true) => {}
                    o => {
                        nviol += 1;
                        report("Z", Some(cap), false, &[], &(format!("TrySend(0): returned {:?} on an empty bounded({}), reference Ok(true)", o, cap), vec![]), &mut out);
                    }
                }
            }
        }
    }
    let mut reent_stats = (0u64, 0u64);
    if !bigfill.is_empty() && nviol < stop_after {
        if let Err(e) = reentrant_payloads(&mut reent_stats) {
            nviol += 1;
            report("reentrant", None, false, &[], &(e, vec!["seqdiff --depth 0 --random 0 --bigfill q".to_string()]), &mut out);
        }
    }
    let mut bomb_stats = (0u64, 0u64);
    if !bigfill.is_empty() && nviol < stop_after {
        if let Err(e) = panicking_destructors(&mut bomb_stats) {
            nviol += 1;
            report("reentrant", None, false, &[], &(e, vec!["seqdiff --depth 0 --random 0 --bigfill q".to_string()]), &mut out);
        }
    }
    out.set("panicking_destructor_calls", J::U(bomb_stats.1));
    out.set("reentrant_payload_configurations", J::U(reent_stats.0));
    out.set("reentrant_payload_calls", J::U(reent_stats.1));
    let mut handle_stats = (0u64, 0u64);
    if big_phases && nviol < stop_after {
        let n = if bigfill == "t" { (1usize << 25) + 3 } else { (1usize << 21) + 3 };
        for side in 0..2 {
            if let Err(e) = many_handles(n, side == 0, &mut handle_stats) {
                nviol += 1;
                let what = format!("{} with up to {} live handles: {}", if side == 0 { "sender_count" } else { "receiver_count" }, n, e);
                report("plain", None, false, &[], &(what, vec![format!("clone {} handles of one side in all flavours, read the counts, drop them in a scattered order", n)]), &mut out);
            }
        }
    }
    out.set("many_handles_peak", J::U(handle_stats.0));
    out.set("many_handles_count_reads", J::U(handle_stats.1));
    out.set("bigfill_channels", J::U(fill_stats.0));
    out.set("bigfill_sends", J::U(fill_stats.1));
    out.set("bigcap_sequences", J::U(big_seqs));
    out.set("wide_sequences", J::U(wide_seqs));
    out.set("wide_max_waiters", J::U(max_wait as u64));
    WIDE.store(false, std::sync::atomic::Ordering::Relaxed);

    let hits = kverif::fp::hits_delta(&hits0);
    out.set("engine", J::s("seqdiff"));
    out.set("seed", J::U(seed));
    out.set("shard", J::U(shard));
    out.set("depth", J::U(depth as u64));
    out.set("sequences", J::U(st.seqs));
    out.set("exhaustive_sequences", J::U(exhaustive_seqs));
    out.set("random_sequences", J::U(random_seqs));
    out.set("calls", J::U(st.calls));
    out.set("distinct_state_call_pairs", J::U(st.pairs.len() as u64));
    out.set("pair_hashes", J::A(st.pairs.iter().map(|h| J::U(*h)).collect()));
    out.set("samples", J::A(st.samples.clone()));
    out.set("failpoint_hits", kverif::fp::hits_json(&hits));
    out.set("nviolations", J::U(nviol));
    out.set("wall_s", J::F(t0.elapsed().as_secs_f64()));
    let _ = st.kinds;
    println!("{}", out.to_string());
    std::process::exit(if nviol > 0 { 1 } else { 0 });
}
