//! E6 `lockmon`: the channel's internal lock (`kanal::verif::Mutex`, i.e. the
//! real `lock_api::Mutex<RawMutexLock, _>`) under 2-16 threads with an overlap
//! monitor and an invariant-carrying *plain* (non-atomic) payload, hold times
//! long enough to drive `spin_cond` through every back-off phase, a frozen
//! holder against `try_lock`, and the stuck detector for progress.
use kanal::verif::Mutex;
use kverif::json::J;
use kverif::rng::Rng;
use kverif::stuck::{self, JoinErr};
use std::sync::atomic::{AtomicBool, AtomicU32, AtomicU64, Ordering::Relaxed, Ordering::SeqCst};
use std::sync::Arc;
use std::time::Duration;

struct Protected {
    owner: AtomicU32,
    // plain fields: a data race on them (missing acquire/release) is visible to Miri/TSan,
    // a broken invariant (b == !a, sum == a ^ gen) is visible natively when sections overlap
    a: u64,
    b: u64,
    gen: u64,
    sum: u64,
}

#[derive(Default)]
struct Counters {
    acquisitions: AtomicU64,
    contended: AtomicU64,
    try_ok: AtomicU64,
    try_failed: AtomicU64,
    waiting: AtomicU32,
    max_waiting: AtomicU32,
    overlap: AtomicU64,
    broken: AtomicU64,
    hold: [AtomicU64; 5],
}

fn section(p: &mut Protected, me: u32, hold: u32, c: &Counters, rng: &mut Rng) {
    if p.owner.swap(me, Relaxed) != 0 {
        c.overlap.fetch_add(1, Relaxed);
    }
    if p.b != !p.a || p.sum != (p.a ^ p.gen) {
        c.broken.fetch_add(1, Relaxed);
    }
    // update in two steps with the hold in between: an overlapping section would see it half done
    p.a = rng.next();
    c.hold[hold as usize].fetch_add(1, Relaxed);
    match hold {
        0 => {}
        1 => {
            for _ in 0..200 {
                std::hint::spin_loop();
            }
        }
        2 => std::thread::yield_now(),
        3 => std::thread::sleep(Duration::from_micros(60)),
        _ => std::thread::sleep(Duration::from_millis(3)),
    }
    p.b = !p.a;
    p.gen += 1;
    p.sum = p.a ^ p.gen;
    if p.owner.swap(0, Relaxed) != me {
        c.overlap.fetch_add(1, Relaxed);
    }
    c.acquisitions.fetch_add(1, Relaxed);
}

// --- real-time scheduling on one CPU ------------------------------------------------------------------
// Under SCHED_FIFO a thread keeps the CPU until it blocks or yields. With one hardware thread, a waiter of the
// lock that only spins never lets the (descheduled) holder run again: "a blocking acquisition succeeds once the
// holder leaves, whether the machine reports one hardware thread or many" then fails for good. The phase needs the
// right to use SCHED_FIFO (root / CAP_SYS_NICE) and a process pinned to one CPU; otherwise it is skipped.
#[cfg(all(target_os = "linux", not(miri)))]
mod rt {
    #[repr(C)]
    pub struct SchedParam {
        pub sched_priority: i32,
    }
    extern "C" {
        pub fn pthread_self() -> usize;
        pub fn pthread_setschedparam(th: usize, policy: i32, p: *const SchedParam) -> i32;
    }
    pub const SCHED_FIFO: i32 = 1;
    pub const SCHED_OTHER: i32 = 0;
    pub fn set_fifo(prio: i32) -> bool {
        unsafe { pthread_setschedparam(pthread_self(), SCHED_FIFO, &SchedParam { sched_priority: prio }) == 0 }
    }
    pub fn set_other() {
        unsafe {
            pthread_setschedparam(pthread_self(), SCHED_OTHER, &SchedParam { sched_priority: 0 });
        }
    }
}

/// returns (ran, violation)
#[cfg(all(target_os = "linux", not(miri)))]
fn fifo_phase(rounds: u64) -> (u64, Option<String>) {
    use std::sync::atomic::Ordering::SeqCst;
    if kanal::verif::get_parallelism() != 1 || !rt::set_fifo(20) {
        return (0, None);
    }
    let mut ran = 0;
    let mut viol = None;
    for round in 0..rounds {
        let m: Arc<Mutex<u64>> = Arc::new(Mutex::new(0));
        let holding = Arc::new(AtomicBool::new(false));
        let acquired = Arc::new(AtomicBool::new(false));
        let ok = Arc::new(AtomicBool::new(true));
        let holder = {
            let (m, holding, ok) = (m.clone(), holding.clone(), ok.clone());
            std::thread::spawn(move || {
                if !rt::set_fifo(10) {
                    ok.store(false, SeqCst);
                }
                let mut g = m.lock();
                holding.store(true, SeqCst);
                // descheduled inside the critical section
                std::thread::sleep(Duration::from_millis(30 + 10 * (round % 3)));
                *g += 1;
                drop(g);
            })
        };
        while !holding.load(SeqCst) {
            std::thread::sleep(Duration::from_millis(1));
        }
        let waiter = {
            let (m, acquired, ok) = (m.clone(), acquired.clone(), ok.clone());
            std::thread::spawn(move || {
                if !rt::set_fifo(10) {
                    ok.store(false, SeqCst);
                }
                let mut g = m.lock();
                *g += 1;
                drop(g);
                acquired.store(true, SeqCst);
            })
        };
        // this thread (priority 20) sleeps; it preempts the others whenever its timer fires
        let t0 = std::time::Instant::now();
        while !acquired.load(SeqCst) && t0.elapsed() < Duration::from_secs(5) {
            std::thread::sleep(Duration::from_millis(5));
        }
        if !ok.load(SeqCst) {
            rt::set_other();
            return (ran, None);
        }
        if !acquired.load(SeqCst) {
            viol = Some(format!(
                "one CPU, SCHED_FIFO, equal priorities: a blocking acquisition had not succeeded 5 s after the holder's 30-50 ms sleep inside the critical section should have ended (round {}): the waiter never lets the holder run",
                round
            ));
            // the two threads cannot be recovered: report and leave
            break;
        }
        let _ = holder.join();
        let _ = waiter.join();
        ran += 1;
    }
    rt::set_other();
    (ran, viol)
}
#[cfg(not(all(target_os = "linux", not(miri))))]
fn fifo_phase(_rounds: u64) -> (u64, Option<String>) {
    (0, None)
}

static FIFO_RAN: std::sync::atomic::AtomicU64 = std::sync::atomic::AtomicU64::new(0);

fn main() {
    let a = kverif::args();
    let seed = kverif::arg_u64(&a, "seed", 1);
    let fifo_rounds = kverif::arg_u64(&a, "fifo-rounds", 0);
    if fifo_rounds > 0 {
        // before anything else: a stuck pair of real-time threads cannot be joined
        let (ran, v) = fifo_phase(fifo_rounds);
        if let Some(v) = v {
            let out = J::O(vec![
                ("engine".into(), J::s("lockmon")),
                ("seed".into(), J::U(seed)),
                ("parallelism_reported".into(), J::U(kanal::verif::get_parallelism() as u64)),
                ("fifo_rounds".into(), J::U(ran)),
                ("violations".into(), J::A(vec![J::s(v)])),
                ("nviolations".into(), J::U(1)),
            ]);
            println!("{}", out.to_string());
            std::process::exit(1);
        }
        FIFO_RAN.store(ran, std::sync::atomic::Ordering::Relaxed);
    }
    let rounds = kverif::arg_u64(&a, "rounds", 6);
    let iters = kverif::arg_u64(&a, "iters", 3000);
    let maxthreads = kverif::arg_u64(&a, "max-threads", 16);
    let long_every = kverif::arg_u64(&a, "long-every", 400);
    let long_hold_ms = kverif::arg_u64(&a, "long-hold-ms", 1500);
    let long_rounds = kverif::arg_u64(&a, "long-rounds", 1);
    let mut long_holds = 0u64;
    let grace = Duration::from_millis(kverif::arg_u64(&a, "grace-ms", 20_000));
    let cap = Duration::from_millis(kverif::arg_u64(&a, "cap-ms", 300_000));
    #[cfg(feature = "tsan")]
    kverif::tsan::install();
    let t0 = std::time::Instant::now();
    let c = Arc::new(Counters::default());
    let mut rng = Rng::new(seed);
    let mut viol: Vec<String> = vec![];
    let mut inconclusive: Vec<String> = vec![];
    let mut thread_counts = vec![];
    let mut frozen_try = 0u64;
    for round in 0..rounds {
        let n = if cfg!(miri) { 2 + rng.below(2) } else { 2 + rng.below(maxthreads - 1) } as usize;
        thread_counts.push(n as u64);
        let m: Arc<Mutex<Protected>> = Arc::new(Mutex::new(Protected { owner: AtomicU32::new(0), a: 5, b: !5, gen: 0, sum: 5 }));
        // --- frozen holder vs try_lock: a non-blocking attempt never waits -----------------
        {
            let hold = Arc::new(AtomicBool::new(true));
            let taken = Arc::new(AtomicBool::new(false));
            let (m2, h2, t2) = (m.clone(), hold.clone(), taken.clone());
            let holder = std::thread::spawn(move || {
                let g = m2.lock();
                t2.store(true, SeqCst);
                while h2.load(SeqCst) {
                    std::thread::yield_now();
                }
                drop(g);
            });
            while !taken.load(SeqCst) {
                std::thread::yield_now();
            }
            let slot = stuck::slot(40);
            slot.begin_thread();
            for _ in 0..if cfg!(miri) { 3 } else { 200 } {
                slot.enter(false, 1);
                let r = m.try_lock();
                slot.leave();
                frozen_try += 1;
                if r.is_some() {
                    viol.push("try_lock succeeded while another thread held the lock (mutual exclusion broken)".into());
                    break;
                }
            }
            hold.store(false, SeqCst);
            holder.join().unwrap();
            // and once the holder left, a blocking acquisition succeeds
            let g = m.lock();
            drop(g);
        }
        // --- a very long hold: waiters go through every phase of the back-off (including whatever happens when
        //     its spin budget is exhausted) and must still get the lock once the holder leaves -----------------
        if round < long_rounds {
            stuck::reset_all();
            let g = m.lock();
            let mut ws = vec![];
            for t in 0..3usize {
                let m = m.clone();
                let c = c.clone();
                ws.push(std::thread::spawn(move || {
                    let slot = stuck::slot(t);
                    slot.begin_thread();
                    slot.enter(true, 7);
                    let mut g = m.lock();
                    slot.leave();
                    if g.owner.swap(t as u32 + 1, Relaxed) != 0 {
                        c.overlap.fetch_add(1, Relaxed);
                    }
                    g.gen += 1;
                    g.sum = g.a ^ g.gen;
                    g.owner.store(0, Relaxed);
                    slot.finish();
                }));
            }
            std::thread::sleep(Duration::from_millis(if cfg!(miri) { 1 } else { long_hold_ms }));
            drop(g);
            long_holds += 1;
            match stuck::join_all(ws, grace, cap) {
                Ok(_) => {}
                Err(JoinErr::Stuck(v)) => {
                    viol.push(format!("after a hold of {} ms, lock() did not return although the holder has left: {:?}", long_hold_ms, v));
                    break;
                }
                Err(JoinErr::Inconclusive(s)) => {
                    inconclusive.push(s);
                    break;
                }
                Err(JoinErr::Panicked(i, m)) => {
                    viol.push(format!("waiter {} panicked: {}", i, m));
                    break;
                }
            }
        }
        // --- contention -------------------------------------------------------------------------
        stuck::reset_all();
        let mut hs = vec![];
        for t in 0..n {
            let m = m.clone();
            let c = c.clone();
            let mut r = rng.fork(t as u64 + round * 100);
            let it = if cfg!(miri) { iters.min(12) } else { iters };
            hs.push(std::thread::spawn(move || {
                let slot = stuck::slot(t);
                slot.begin_thread();
                let me = t as u32 + 1;
                for i in 0..it {
                    let hold = if long_every > 0 && r.below(long_every) == 0 { 4 } else { r.below(4) as u32 };
                    let hold = if cfg!(miri) { hold.min(2) } else { hold };
                    if r.chance(1, 4) {
                        slot.enter(false, i as u32);
                        let g = m.try_lock();
                        slot.leave();
                        match g {
                            Some(mut g) => {
                                c.try_ok.fetch_add(1, Relaxed);
                                section(&mut g, me, hold.min(2), &c, &mut r);
                            }
                            None => {
                                c.try_failed.fetch_add(1, Relaxed);
                            }
                        }
                    } else {
                        // measure contention ourselves: a failed try immediately before the blocking lock
                        let pre = m.try_lock();
                        let mut g = match pre {
                            Some(g) => g,
                            None => {
                                c.contended.fetch_add(1, Relaxed);
                                let w = c.waiting.fetch_add(1, Relaxed) + 1;
                                c.max_waiting.fetch_max(w, Relaxed);
                                slot.enter(true, i as u32);
                                let g = m.lock();
                                slot.leave();
                                c.waiting.fetch_sub(1, Relaxed);
                                g
                            }
                        };
                        section(&mut g, me, hold, &c, &mut r);
                    }
                }
                slot.finish();
            }));
        }
        match stuck::join_all(hs, grace, cap) {
            Ok(_) => {}
            Err(JoinErr::Stuck(v)) => {
                viol.push(format!("lock() did not return although no thread holds the lock any more: {:?}", v));
                break;
            }
            Err(JoinErr::Inconclusive(s)) => {
                inconclusive.push(s);
                break;
            }
            Err(JoinErr::Panicked(i, m)) => {
                viol.push(format!("worker {} panicked: {}", i, m));
                break;
            }
        }
        // final state consistent
        let g = m.lock();
        if g.b != !g.a || g.sum != (g.a ^ g.gen) {
            c.broken.fetch_add(1, Relaxed);
        }
    }
    if c.overlap.load(Relaxed) > 0 {
        viol.push(format!("critical sections overlapped {} time(s) (owner monitor)", c.overlap.load(Relaxed)));
    }
    if c.broken.load(Relaxed) > 0 {
        viol.push(format!("the protected plain data was seen half-updated {} time(s) on entry to a critical section", c.broken.load(Relaxed)));
    }
    let out = J::O(vec![
        ("engine".into(), J::s("lockmon")),
        ("seed".into(), J::U(seed)),
        ("parallelism_reported".into(), J::U(kanal::verif::get_parallelism() as u64)),
        ("rounds".into(), J::U(rounds)),
        ("threads_per_round".into(), J::A(thread_counts.into_iter().map(J::U).collect())),
        ("acquisitions".into(), J::U(c.acquisitions.load(Relaxed))),
        ("contended_acquisitions".into(), J::U(c.contended.load(Relaxed))),
        ("try_lock_ok".into(), J::U(c.try_ok.load(Relaxed))),
        ("try_lock_failed".into(), J::U(c.try_failed.load(Relaxed))),
        ("try_lock_against_frozen_holder".into(), J::U(frozen_try)),
        ("very_long_holds_survived".into(), J::U(long_holds)),
        ("very_long_hold_ms".into(), J::U(long_hold_ms)),
        ("fifo_one_cpu_rounds".into(), J::U(FIFO_RAN.load(std::sync::atomic::Ordering::Relaxed))),
        ("max_simultaneous_waiters".into(), J::U(c.max_waiting.load(Relaxed) as u64)),
        ("hold_classes".into(), J::A(c.hold.iter().map(|h| J::U(h.load(Relaxed))).collect())),
        ("inconclusive".into(), J::A(inconclusive.iter().map(|s| J::s(s.clone())).collect())),
        ("violations".into(), J::A(viol.iter().map(|s| J::s(s.clone())).collect())),
        ("nviolations".into(), J::U(viol.len() as u64)),
        ("wall_s".into(), J::F(t0.elapsed().as_secs_f64())),
    ]);
    println!("{}", out.to_string());
    std::process::exit(if !viol.is_empty() { 1 } else { 0 });
}
