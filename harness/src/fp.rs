//! Failpoint controller: what the harness installs behind kanal's `fp!` points.
//! Two uses: seeded random delays (widen windows in stress runs) and scripted
//! rendezvous (hold the thread with role R at point P until released).
//! A failpoint never changes what the code does, only when.
use crate::rng::Rng;
use kanal::verif as kv;
use std::cell::{Cell, RefCell};
use std::sync::atomic::{AtomicU32, AtomicU64, Ordering::Relaxed, Ordering::SeqCst};
use std::time::{Duration, Instant};

pub use kv::*;

pub const MAX_ROLES: usize = 24;
const IDLE: u32 = 0;
const ARMED: u32 = 1;
const ARRIVED: u32 = 2;
const RELEASED: u32 = 3;

#[allow(clippy::declare_interior_mutable_const)]
const Z32: AtomicU32 = AtomicU32::new(0);
#[allow(clippy::declare_interior_mutable_const)]
const ROW: [AtomicU32; kv::N_POINTS] = [Z32; kv::N_POINTS];
static GATES: [[AtomicU32; kv::N_POINTS]; MAX_ROLES] = [ROW; MAX_ROLES];

/// how often each role passed each point (a peer can wait for "role R is at point P right now")
static PASSES: [[AtomicU32; kv::N_POINTS]; MAX_ROLES] = [ROW; MAX_ROLES];
/// per (role, point): spin a random number of iterations below this bound after passing (0 = off)
static JITTER: [[AtomicU32; kv::N_POINTS]; MAX_ROLES] = [ROW; MAX_ROLES];
pub fn pass_count(role: u32, point: u32) -> u32 {
    PASSES[role as usize][point as usize].load(Relaxed)
}
pub fn set_jitter(role: u32, point: u32, max_spins: u32) {
    JITTER[role as usize][point as usize].store(max_spins, Relaxed);
}

/// per-mille probability of a random delay at a point (0 = off)
static DELAY_PERMILLE: AtomicU32 = AtomicU32::new(0);
static DELAY_SEED: AtomicU64 = AtomicU64::new(1);
/// max sleep in microseconds for the sleeping kind of delay
static DELAY_MAX_US: AtomicU32 = AtomicU32::new(100);

// order trace: first TRACE_N (role,point) events of a run, for interleaving signatures
pub const TRACE_N: usize = 96;
static TRACE_IDX: AtomicU64 = AtomicU64::new(0);
#[allow(clippy::declare_interior_mutable_const)]
const Z32B: AtomicU32 = AtomicU32::new(0);
static TRACE: [AtomicU32; TRACE_N] = [Z32B; TRACE_N];

thread_local! {
    /// time at which the current thread's current operation was first seen AFTER it had registered in the
    /// wait list (sync: entry of Signal::wait / wait_timeout; async: first poll returned Pending); 0 = not yet
    static REG_T: Cell<u64> = const { Cell::new(0) };
    static ROLE: Cell<u32> = const { Cell::new(0) };
    static TRNG: RefCell<Option<Rng>> = const { RefCell::new(None) };
    static TCOUNT: Cell<u64> = const { Cell::new(0) };
    static TJIT: Cell<u64> = const { Cell::new(0x2545F4914F6CDD1D) };
}

pub fn set_role(r: u32) {
    assert!((r as usize) < MAX_ROLES);
    ROLE.with(|c| c.set(r));
    TRNG.with(|t| *t.borrow_mut() = None);
}
pub fn role() -> u32 {
    ROLE.with(|c| c.get())
}

pub fn install() {
    kv::set_point_hook(Some(hook));
}
pub fn uninstall() {
    kv::set_point_hook(None);
}
pub fn set_random_delays(permille: u32, seed: u64, max_us: u32) {
    DELAY_SEED.store(seed, Relaxed);
    DELAY_MAX_US.store(max_us, Relaxed);
    DELAY_PERMILLE.store(permille, Relaxed);
}
pub fn trace_reset() {
    TRACE_IDX.store(0, Relaxed);
}
/// hash of the order in which the first TRACE_N failpoint events happened
pub fn trace_signature() -> u64 {
    let n = (TRACE_IDX.load(Relaxed) as usize).min(TRACE_N);
    let mut h = n as u64;
    for t in TRACE.iter().take(n) {
        h = crate::rng::hash_mix(h, t.load(Relaxed) as u64);
    }
    h
}

pub fn reg_reset() {
    REG_T.with(|c| c.set(0));
}
pub fn reg_mark() {
    REG_T.with(|c| {
        if c.get() == 0 {
            c.set(crate::payload::now());
        }
    });
}
pub fn reg_take() -> Option<u64> {
    let v = REG_T.with(|c| c.replace(0));
    if v == 0 {
        None
    } else {
        Some(v)
    }
}

fn hook(id: u32) {
    if id == kv::WAIT_ENTER || id == kv::WAIT_TIMEOUT_ENTER {
        reg_mark();
    }
    let role = ROLE.with(|c| c.get());
    let i = TRACE_IDX.fetch_add(1, Relaxed) as usize;
    if i < TRACE_N {
        TRACE[i].store((role << 8) | id, Relaxed);
    }
    if role != 0 {
        PASSES[role as usize][id as usize].fetch_add(1, Relaxed);
        let j = JITTER[role as usize][id as usize].load(Relaxed);
        if j != 0 {
            let n = TJIT.with(|c| {
                let mut x = c.get();
                x ^= x << 13;
                x ^= x >> 7;
                x ^= x << 17;
                c.set(x);
                x % j as u64
            });
            for _ in 0..n {
                std::hint::spin_loop();
            }
        }
        let g = &GATES[role as usize][id as usize];
        if g.load(Relaxed) == ARMED && g.compare_exchange(ARMED, ARRIVED, SeqCst, SeqCst).is_ok() {
            let mut n = 0u32;
            while g.load(SeqCst) != RELEASED {
                n += 1;
                if n < 64 || cfg!(miri) {
                    std::thread::yield_now();
                } else {
                    std::thread::sleep(Duration::from_micros(50));
                }
            }
            g.store(IDLE, SeqCst);
            return;
        }
    }
    let pm = DELAY_PERMILLE.load(Relaxed);
    if pm != 0 {
        let (doit, kind, amt) = TRNG.with(|t| {
            let mut t = t.borrow_mut();
            if t.is_none() {
                let c = TCOUNT.with(|c| c.get());
                let tid = std::thread::current().id();
                let salt = crate::rng::hash64(format!("{:?}", tid).len() as u64 ^ (role as u64) << 20 ^ c);
                *t = Some(Rng::new(DELAY_SEED.load(Relaxed) ^ salt ^ (role as u64).wrapping_mul(0x9E37)));
            }
            let r = t.as_mut().unwrap();
            let x = r.next();
            ((x % 1000) < pm as u64, (x >> 10) % 10, (x >> 20) & 0xffff)
        });
        if doit {
            if cfg!(miri) {
                std::thread::yield_now();
            } else if kind < 5 {
                std::thread::yield_now();
            } else if kind < 8 {
                for _ in 0..(amt % 2000) {
                    std::hint::spin_loop();
                }
            } else {
                let us = 1 + amt % (DELAY_MAX_US.load(Relaxed).max(1) as u64);
                std::thread::sleep(Duration::from_micros(us));
            }
        }
    }
}

/// Arrange that the next time a thread with role `role` reaches `point` it is held there.
pub fn arm(role: u32, point: u32) {
    GATES[role as usize][point as usize].store(ARMED, SeqCst);
}
pub fn disarm(role: u32, point: u32) {
    let g = &GATES[role as usize][point as usize];
    let _ = g.compare_exchange(ARMED, IDLE, SeqCst, SeqCst);
}
pub fn is_arrived(role: u32, point: u32) -> bool {
    GATES[role as usize][point as usize].load(SeqCst) == ARRIVED
}
/// Waits (wall-clock bounded; expiry is "inconclusive", never a verdict) until the role is held at the point.
pub fn wait_arrived(role: u32, point: u32, max: Duration) -> bool {
    let t0 = Instant::now();
    let mut n = 0u32;
    while !is_arrived(role, point) {
        n += 1;
        if n < 64 || cfg!(miri) {
            std::thread::yield_now();
        } else {
            std::thread::sleep(Duration::from_micros(50));
        }
        if n % 32 == 0 && t0.elapsed() > max {
            return false;
        }
    }
    true
}
pub fn release(role: u32, point: u32) {
    let g = &GATES[role as usize][point as usize];
    // if it never arrived, just disarm
    if g.compare_exchange(ARRIVED, RELEASED, SeqCst, SeqCst).is_err() {
        let _ = g.compare_exchange(ARMED, IDLE, SeqCst, SeqCst);
    }
}
pub fn reset_gates() {
    for r in JITTER.iter() {
        for g in r.iter() {
            g.store(0, Relaxed);
        }
    }
    for r in GATES.iter() {
        for g in r.iter() {
            if g.load(SeqCst) == ARRIVED {
                g.store(RELEASED, SeqCst);
            } else {
                g.store(IDLE, SeqCst);
            }
        }
    }
}

pub fn hits() -> [u64; kv::N_POINTS] {
    kv::hits()
}
pub fn hits_delta(before: &[u64; kv::N_POINTS]) -> [u64; kv::N_POINTS] {
    let now = kv::hits();
    let mut d = [0u64; kv::N_POINTS];
    for i in 0..kv::N_POINTS {
        d[i] = now[i] - before[i];
    }
    d
}
pub fn hits_json(h: &[u64; kv::N_POINTS]) -> crate::json::J {
    let mut o = crate::json::J::obj();
    for i in 0..kv::N_POINTS {
        o.set(kv::POINT_NAMES[i], crate::json::J::U(h[i]));
    }
    o
}
