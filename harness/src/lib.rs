//! kverif: runtime-monitoring harness for kanal (see /verif/DESIGN.md).
pub mod exec;
pub mod fp;
pub mod json;
pub mod lin;
pub mod model;
pub mod ops;
pub mod oracles;
pub mod stuck;
#[cfg(feature = "tsan")]
pub mod tsan;
pub mod payload;
pub mod rng;
pub mod scn;

/// parse `--key value` style args into a map
pub fn args() -> std::collections::HashMap<String, String> {
    let mut m = std::collections::HashMap::new();
    let a: Vec<String> = std::env::args().skip(1).collect();
    let mut i = 0;
    while i < a.len() {
        if let Some(k) = a[i].strip_prefix("--") {
            if i + 1 < a.len() && !a[i + 1].starts_with("--") {
                m.insert(k.to_string(), a[i + 1].clone());
                i += 2;
            } else {
                m.insert(k.to_string(), "1".to_string());
                i += 1;
            }
        } else {
            i += 1;
        }
    }
    m
}
pub fn arg_u64(m: &std::collections::HashMap<String, String>, k: &str, d: u64) -> u64 {
    m.get(k).map(|v| v.parse().expect(k)).unwrap_or(d)
}
pub fn arg_str<'a>(m: &'a std::collections::HashMap<String, String>, k: &str, d: &'a str) -> &'a str {
    m.get(k).map(|s| s.as_str()).unwrap_or(d)
}
