//! Linearizability of a complete concurrent history against `RefChan`
//! (Wing–Gong search with memoisation on the full state, no hashing
//! shortcuts).  A blocking operation is an atomic *register* step plus a
//! completion performed by a peer's step (or by its own cancel step); an
//! operation may take a step only when every operation that returned before
//! it was invoked is complete.
use crate::model::*;
use crate::ops::{Event, Op, Res};
use std::collections::HashSet;

#[derive(Debug)]
pub enum LinResult {
    Ok { states: u64 },
    /// no linearization exists
    Violation { states: u64, deepest: Vec<usize> },
    Inconclusive { states: u64 },
}

#[derive(Clone, PartialEq, Eq, Hash)]
struct St {
    m: RefChan,
    /// 0 not started, 1 blocked (registered), 2 done
    ph: Vec<u8>,
}

pub struct Lin<'a> {
    ev: &'a [Event],
    /// for each event, the events that must be done before it may step
    pred: Vec<Vec<usize>>,
    /// events whose first step must already have happened before this one starts (scripted scenarios)
    begun_pred: Vec<Vec<usize>>,
    /// StreamNext events that happen after the thread's stream ended
    dead_stream: Vec<bool>,
    seen: HashSet<St>,
    unique: bool,
    budget: u64,
    states: u64,
    deepest: Vec<usize>,
    trail: Vec<usize>,
}

fn compat_completion(e: &Event, c: Completion, unique: bool) -> bool {
    match (c, &e.res) {
        // without unique tags the ledger cannot tell which value a dropped receive future consumed
        (Completion::Got(_), Res::Cancelled(None)) if !unique => matches!(e.op, Op::ARecvDrop(_)),
        (Completion::Sent, Res::Ok) => e.op.is_send(),
        // future dropped after a receiver had already claimed the value
        (Completion::Sent, Res::Cancelled(_)) => matches!(e.op, Op::ASendDrop(_)),
        (Completion::Got(t), Res::Val(v)) => t == *v,
        (Completion::Got(t), Res::Cancelled(Some(v))) => t == *v,
        // real code reports plain Closed to a waiter terminated by a disconnect; the property only asks for an error
        (Completion::Terminated, Res::Closed) | (Completion::Terminated, Res::SendClosed) | (Completion::Terminated, Res::RecvClosed) => true,
        (Completion::Terminated, Res::NoneV) => matches!(e.op, Op::StreamNext),
        (Completion::Terminated, Res::Cancelled(None)) => true,
        _ => false,
    }
}

impl<'a> Lin<'a> {
    pub fn new(ev: &'a [Event], budget: u64, unique: bool) -> Self {
        let n = ev.len();
        let mut pred = vec![vec![]; n];
        for i in 0..n {
            for j in 0..n {
                // same thread: program order, except that a scripted future's single event overlaps the later calls of its owner
                if i != j && (ev[j].t1 < ev[i].t0 || (ev[j].th == ev[i].th && ev[j].idx < ev[i].idx && ev[j].t1 <= ev[i].t0)) {
                    pred[i].push(j);
                }
            }
        }
        let mut begun_pred = vec![vec![]; n];
        for i in 0..n {
            for j in 0..n {
                if let Some(rt) = ev[j].reg_t {
                    if i != j && rt < ev[i].t0 {
                        begun_pred[i].push(j);
                    }
                }
            }
        }
        let mut dead_stream = vec![false; n];
        for i in 0..n {
            if ev[i].op == Op::StreamNext {
                dead_stream[i] = ev.iter().any(|e| e.th == ev[i].th && e.idx < ev[i].idx && e.op == Op::StreamNext && e.res == Res::NoneV);
            }
        }
        Lin { ev, pred, begun_pred, dead_stream, seen: HashSet::new(), unique, budget, states: 0, deepest: vec![], trail: vec![] }
    }

    pub fn check(&mut self, init: RefChan) -> LinResult {
        let st = St { m: init, ph: vec![0; self.ev.len()] };
        match self.dfs(st) {
            Some(true) => LinResult::Ok { states: self.states },
            Some(false) => LinResult::Violation { states: self.states, deepest: self.deepest.clone() },
            None => LinResult::Inconclusive { states: self.states },
        }
    }

    /// applies completions produced by a step; false if one contradicts the history
    fn settle(&self, st: &mut St, done: &[(OpId, Completion)]) -> bool {
        for (id, c) in done {
            let i = *id as usize;
            if st.ph[i] != 1 || !compat_completion(&self.ev[i], *c, self.unique) {
                return false;
            }
            st.ph[i] = 2;
        }
        true
    }

    /// all successor states of letting event i take its next step
    fn steps(&self, st: &St, i: usize) -> Vec<St> {
        let e = &self.ev[i];
        let mut out = Vec::new();
        let id = i as OpId;
        let mut push = |mut s: St, done: Vec<(OpId, Completion)>, ph: u8, this: &Self| {
            s.ph[i] = ph;
            if this.settle(&mut s, &done) {
                out.push(s);
            }
        };
        if st.ph[i] == 1 {
            // registered: its own cancel step (deadline expiry / future drop)
            match (&e.op, &e.res) {
                (Op::SendTimeout(_), Res::Timeout) | (Op::SendOptTimeout(_), Res::Timeout) | (Op::ASendDrop(_), Res::Cancelled(_)) => {
                    let mut s = st.clone();
                    if s.m.cancel_send(id) {
                        push(s, vec![], 2, self);
                    }
                }
                (Op::RecvTimeout(_), Res::Timeout) | (Op::ARecvDrop(_), Res::Cancelled(None)) => {
                    let mut s = st.clone();
                    if s.m.cancel_recv(id) {
                        push(s, vec![], 2, self);
                    }
                }
                _ => {}
            }
            return out;
        }
        let mut s = st.clone();
        let mut done = vec![];
        match e.op {
            Op::Send | Op::SendTimeout(_) | Op::SendOptTimeout(_) | Op::ASend | Op::ASendDrop(_) => {
                if matches!(e.op, Op::ASendDrop(0)) {
                    if matches!(e.res, Res::Cancelled(_)) {
                        push(s, done, 2, self);
                    }
                    return out;
                }
                match s.m.send(id, e.tag.unwrap(), true, &mut done) {
                    SendOut::Done => {
                        if e.res == Res::Ok {
                            push(s, done, 2, self)
                        }
                    }
                    SendOut::Blocked => push(s, done, 1, self),
                    SendOut::Closed => {
                        if e.res == Res::Closed {
                            push(s, done, 2, self)
                        }
                    }
                    SendOut::RecvClosed => {
                        if e.res == Res::RecvClosed {
                            push(s, done, 2, self)
                        }
                    }
                    SendOut::Full => unreachable!(),
                }
            }
            Op::TrySend | Op::TrySendOpt | Op::TrySendRt | Op::TrySendOptRt => {
                let rt = matches!(e.op, Op::TrySendRt | Op::TrySendOptRt);
                if rt && e.res == Res::False {
                    // a realtime call may always give up on the lock: no effect
                    push(st.clone(), vec![], 2, self);
                }
                let r = s.m.send(id, e.tag.unwrap(), false, &mut done);
                let ok = match r {
                    SendOut::Done => e.res == Res::True,
                    SendOut::Full => e.res == Res::False,
                    SendOut::Closed => e.res == Res::Closed,
                    SendOut::RecvClosed => e.res == Res::RecvClosed,
                    SendOut::Blocked => unreachable!(),
                };
                if ok && !(rt && e.res == Res::False && r == SendOut::Full) {
                    push(s, done, 2, self);
                }
            }
            Op::Recv | Op::RecvTimeout(_) | Op::ARecv | Op::ARecvDrop(_) | Op::StreamNext => {
                if matches!(e.op, Op::ARecvDrop(0)) || self.dead_stream[i] {
                    let fine = if self.dead_stream[i] { e.res == Res::NoneV } else { matches!(e.res, Res::Cancelled(None)) };
                    if fine {
                        push(s, done, 2, self);
                    }
                    return out;
                }
                let stream = e.op == Op::StreamNext;
                match s.m.recv(id, true, &mut done) {
                    RecvOut::Got(t) => {
                        if e.res == Res::Val(t) {
                            push(s, done, 2, self)
                        }
                    }
                    RecvOut::Blocked => push(s, done, 1, self),
                    RecvOut::Closed => {
                        if e.res == Res::Closed || (stream && e.res == Res::NoneV) {
                            push(s, done, 2, self)
                        }
                    }
                    RecvOut::SendClosed => {
                        // recv_timeout looks at the clock before the disconnect test
                        if e.res == Res::SendClosed || (stream && e.res == Res::NoneV) || (matches!(e.op, Op::RecvTimeout(_)) && e.res == Res::Timeout) {
                            push(s, done, 2, self)
                        }
                    }
                    RecvOut::Empty => unreachable!(),
                }
            }
            Op::TryRecv | Op::TryRecvRt => {
                let rt = e.op == Op::TryRecvRt;
                if rt && e.res == Res::NoneV {
                    push(st.clone(), vec![], 2, self);
                }
                let r = s.m.recv(id, false, &mut done);
                let ok = match r {
                    RecvOut::Got(t) => e.res == Res::Val(t),
                    RecvOut::Empty => e.res == Res::NoneV,
                    RecvOut::Closed => e.res == Res::Closed,
                    RecvOut::SendClosed => e.res == Res::SendClosed,
                    RecvOut::Blocked => unreachable!(),
                };
                if ok && !(rt && e.res == Res::NoneV && r == RecvOut::Empty) {
                    push(s, done, 2, self);
                }
            }
            Op::Drain => match s.m.drain(&mut done) {
                Some(v) => {
                    if e.res == Res::Drained(v) {
                        push(s, done, 2, self)
                    }
                }
                None => {
                    if e.res == Res::Closed {
                        push(s, done, 2, self)
                    }
                }
            },
            Op::CloseS | Op::CloseR => match s.m.close(&mut done) {
                Ok(_) => {
                    if e.res == Res::Ok {
                        push(s, done, 2, self)
                    }
                }
                Err(()) => {
                    if e.res == Res::Closed {
                        push(s, done, 2, self)
                    }
                }
            },
            Op::CloneS(_) => {
                s.m.clone_sender();
                push(s, done, 2, self)
            }
            Op::CloneR(_) => {
                s.m.clone_receiver();
                push(s, done, 2, self)
            }
            Op::DropS => {
                s.m.drop_sender(&mut done);
                push(s, done, 2, self)
            }
            Op::DropR => {
                s.m.drop_receiver(&mut done);
                push(s, done, 2, self)
            }
            Op::ConvS | Op::ConvR => push(s, done, 2, self),
            Op::Len => {
                if e.res == Res::Num(s.m.len() as u64) {
                    push(s, done, 2, self)
                }
            }
            Op::IsEmpty => {
                if e.res == Res::B(s.m.is_empty()) {
                    push(s, done, 2, self)
                }
            }
            Op::IsFull => {
                if e.res == Res::B(s.m.is_full()) {
                    push(s, done, 2, self)
                }
            }
            Op::SenderCount => {
                if e.res == Res::Num(s.m.sc as u64) {
                    push(s, done, 2, self)
                }
            }
            Op::ReceiverCount => {
                if e.res == Res::Num(s.m.rc as u64) {
                    push(s, done, 2, self)
                }
            }
            Op::IsClosed => {
                if e.res == Res::B(s.m.closed()) {
                    push(s, done, 2, self)
                }
            }
            Op::IsDisconnectedS => {
                if e.res == Res::B(s.m.s_is_disconnected()) {
                    push(s, done, 2, self)
                }
            }
            Op::IsDisconnectedR => {
                if e.res == Res::B(s.m.r_is_disconnected()) {
                    push(s, done, 2, self)
                }
            }
            Op::IsTerminated => {
                if e.res == Res::B(s.m.is_terminated()) {
                    push(s, done, 2, self)
                }
            }
        }
        out
    }

    fn dfs(&mut self, st: St) -> Option<bool> {
        if st.ph.iter().all(|p| *p == 2) {
            return Some(true);
        }
        if !self.seen.insert(st.clone()) {
            return Some(false);
        }
        self.states += 1;
        if self.states > self.budget {
            return None;
        }
        if self.trail.len() > self.deepest.len() {
            self.deepest = self.trail.clone();
        }
        for i in 0..self.ev.len() {
            if st.ph[i] == 2 {
                continue;
            }
            if st.ph[i] == 0 && (!self.pred[i].iter().all(|j| st.ph[*j] == 2) || !self.begun_pred[i].iter().all(|j| st.ph[*j] >= 1)) {
                continue;
            }
            for nx in self.steps(&st, i) {
                self.trail.push(i);
                let r = self.dfs(nx);
                self.trail.pop();
                match r {
                    Some(true) => return Some(true),
                    None => return None,
                    Some(false) => {}
                }
            }
        }
        Some(false)
    }
}
