//! n·log n oracles over a complete recorded history + the payload ledger.
//! Each returns violations tagged with the property they refute.  Every
//! inequality on time stamps is chosen so that stamp skew / equal stamps can
//! only make the oracle more permissive.
use crate::model::Tag;
use crate::ops::{Event, Op, Res};
use crate::payload::Ledger;
use std::collections::HashMap;

#[derive(Clone, Debug)]
pub struct Viol {
    pub prop: &'static str,
    pub msg: String,
    /// indexes into the event list of the operations involved
    pub events: Vec<usize>,
}

pub struct Hist<'a> {
    pub ev: &'a [Event],
    pub cap: Option<usize>,
    /// handles that exist when the workers start
    pub s0: u32,
    pub r0: u32,
    pub unique: bool,
}

#[derive(Default, Debug, Clone)]
pub struct Obs {
    pub sends_ok: u64,
    pub sends_failed: u64,
    pub sends_cancelled: u64,
    pub received: u64,
    pub consumed_by_dropped_future: u64,
    pub destroyed_by_channel: u64,
    pub fifo_pairs: u64,
    pub max_excess: i64,
    pub closes_won: u64,
    pub closes_lost: u64,
    pub ops_after_close: u64,
    pub disconnect_errors: u64,
    pub count_reads: u64,
    pub timeouts: u64,
    pub min_timeout_slack_ns: i64,
    pub timed_success_after_block: u64,
    pub drains: u64,
    pub drained_values: u64,
}

fn is_ok_send(r: &Res) -> bool {
    matches!(r, Res::Ok | Res::True)
}

/// who took each tag: (event index, position inside a drain)
fn takers(ev: &[Event], viol: &mut Vec<Viol>, unique: bool) -> HashMap<Tag, (usize, usize)> {
    let mut m: HashMap<Tag, (usize, usize)> = HashMap::new();
    let mut put = |t: Tag, i: usize, pos: usize, viol: &mut Vec<Viol>| {
        if let Some((j, _)) = m.get(&t) {
            if unique {
                viol.push(Viol { prop: "C01", msg: format!("value {} was delivered twice: to {} and to {}", t, ev[*j].short(), ev[i].short()), events: vec![*j, i] });
            }
        } else {
            m.insert(t, (i, pos));
        }
    };
    for (i, e) in ev.iter().enumerate() {
        match &e.res {
            Res::Val(t) if e.op.is_recv() => put(*t, i, 0, viol),
            Res::Drained(v) => {
                for (p, t) in v.iter().enumerate() {
                    put(*t, i, p, viol);
                }
            }
            Res::Cancelled(Some(t)) if e.op.is_recv() => put(*t, i, 0, viol),
            _ => {}
        }
    }
    m
}

pub fn check_all(h: &Hist, ledger: &Ledger, obs: &mut Obs) -> Vec<Viol> {
    let ev = h.ev;
    let mut viol = Vec::new();
    obs.min_timeout_slack_ns = i64::MAX;

    // ---- results the executor already found broken -----------------------------------
    for (i, e) in ev.iter().enumerate() {
        match &e.res {
            Res::Corrupt(t) => viol.push(Viol { prop: "C04", msg: format!("{}: received value (tag field {}) fails its integrity check: stale, torn or corrupted payload", e.short(), t), events: vec![i] }),
            Res::BadDrain(s) => viol.push(Viol { prop: "C19", msg: format!("{}: {}", e.short(), s), events: vec![i] }),
            Res::BadOption(s) => viol.push(Viol { prop: "C05", msg: format!("{}: {}", e.short(), s), events: vec![i] }),
            Res::Panicked => viol.push(Viol { prop: "C18", msg: format!("{}: panicked", e.short()), events: vec![i] }),
            _ => {}
        }
    }

    if !viol.is_empty() {
        // a result that is broken in itself makes the rest of the bookkeeping (which value went where)
        // unreliable: report it alone rather than a cascade of secondary findings
        return viol;
    }

    // ---- C01 conservation + C05 ledger --------------------------------------------------
    let tk = takers(ev, &mut viol, h.unique);
    let mut sent: HashMap<Tag, usize> = HashMap::new();
    for (i, e) in ev.iter().enumerate() {
        if let (true, Some(t)) = (e.op.is_send(), e.tag) {
            sent.insert(t, i);
            if is_ok_send(&e.res) {
                obs.sends_ok += 1
            } else if matches!(e.res, Res::Cancelled(_)) {
                obs.sends_cancelled += 1
            } else {
                obs.sends_failed += 1
            }
        }
    }
    if h.unique {
        for (t, (ri, _)) in &tk {
            match sent.get(t) {
                None => viol.push(Viol { prop: "C01", msg: format!("{} returned value {} which no send supplied (invented / stale value)", ev[*ri].short(), t), events: vec![*ri] }),
                Some(si) => {
                    let s = &ev[*si];
                    if !is_ok_send(&s.res) && !matches!(s.res, Res::Cancelled(_)) {
                        viol.push(Viol { prop: "C01", msg: format!("{} reported failure, yet its value was delivered to {}", s.short(), ev[*ri].short()), events: vec![*si, *ri] });
                    }
                }
            }
            if matches!(ev[*ri].res, Res::Cancelled(_)) {
                obs.consumed_by_dropped_future += 1;
            } else {
                obs.received += 1;
            }
        }
        for (t, si) in &sent {
            if is_ok_send(&ev[*si].res) && !tk.contains_key(t) {
                obs.destroyed_by_channel += 1;
            }
        }
    } else {
        let r: u64 = ev.iter().map(|e| match &e.res { Res::Val(_) if e.op.is_recv() => 1, Res::Drained(v) => v.len() as u64, _ => 0 }).sum();
        obs.received += r;
        if r > obs.sends_ok + obs.sends_cancelled {
            viol.push(Viol { prop: "C01", msg: format!("{} values were received but only {} sends succeeded (+{} cancelled sends whose fate is open): a value was duplicated or invented", r, obs.sends_ok, obs.sends_cancelled), events: vec![] });
        }
    }
    if ledger.bad_count() > 0 {
        viol.push(Viol { prop: "C05", msg: format!("payload ledger: {}", ledger.bad_desc()), events: vec![] });
    }
    let unb = ledger.unbalanced();
    if let Some((t, b, d)) = unb.first() {
        let who = sent.get(t).map(|i| ev[*i].short()).unwrap_or_default();
        viol.push(Viol {
            prop: "C05",
            msg: format!("at quiescence (all handles dropped, all threads joined) value {} was created {} time(s) but dropped {} time(s) ({} values unbalanced; {}) sent by: {}", t, b, d, unb.len(), if d < b { "leak" } else { "double drop" }, who),
            events: sent.get(t).map(|i| vec![*i]).unwrap_or_default(),
        });
    }

    // ---- close (needed by several oracles) --------------------------------------------
    let closes: Vec<usize> = (0..ev.len()).filter(|i| matches!(ev[*i].op, Op::CloseS | Op::CloseR)).collect();
    let winners: Vec<usize> = closes.iter().copied().filter(|i| ev[*i].res == Res::Ok).collect();
    let first_close_t0 = closes.iter().map(|i| ev[*i].t0).min();
    obs.closes_won += winners.len() as u64;
    obs.closes_lost += (closes.len() - winners.len()) as u64;
    if winners.len() > 1 {
        viol.push(Viol { prop: "C10", msg: format!("close() succeeded {} times: {} and {}", winners.len(), ev[winners[0]].short(), ev[winners[1]].short()), events: winners.clone() });
    }
    for c in &closes {
        if ev[*c].res != Res::Ok {
            match winners.first() {
                None => viol.push(Viol { prop: "C10", msg: format!("{} reported 'already closed' but no close() ever succeeded", ev[*c].short()), events: vec![*c] }),
                Some(w) => {
                    if ev[*c].t1 < ev[*w].t0 {
                        viol.push(Viol { prop: "C10", msg: format!("{} reported 'already closed' before the successful {} was even invoked", ev[*c].short(), ev[*w].short()), events: vec![*c, *w] });
                    }
                }
            }
        }
    }
    if let Some(w) = winners.first() {
        let wt1 = ev[*w].t1;
        for (i, e) in ev.iter().enumerate() {
            if e.t0 <= wt1 {
                continue;
            }
            obs.ops_after_close += 1;
            let rt = matches!(e.op, Op::TrySendRt | Op::TrySendOptRt | Op::TryRecvRt);
            let fine = match (&e.op, &e.res) {
                (o, Res::Closed) if o.is_send() || o.is_recv() => true,
                (o, Res::False) if o.is_send() && rt => true,
                (Op::TryRecvRt, Res::NoneV) => true,
                (Op::StreamNext, Res::NoneV) => true,
                (Op::ASendDrop(0), Res::Cancelled(_)) | (Op::ARecvDrop(0), Res::Cancelled(None)) => true,
                (Op::CloseS, Res::Closed) | (Op::CloseR, Res::Closed) => true,
                (Op::Len, Res::Num(0)) | (Op::SenderCount, Res::Num(0)) | (Op::ReceiverCount, Res::Num(0)) => true,
                (Op::IsEmpty, Res::B(true)) | (Op::IsClosed, Res::B(true)) | (Op::IsDisconnectedS, Res::B(true)) | (Op::IsDisconnectedR, Res::B(true)) | (Op::IsTerminated, Res::B(true)) => true,
                (Op::IsFull, _) => true,
                (Op::CloneS(_), _) | (Op::CloneR(_), _) | (Op::DropS, _) | (Op::DropR, _) | (Op::ConvS, _) | (Op::ConvR, _) => true,
                _ => false,
            };
            if !fine {
                viol.push(Viol { prop: "C10", msg: format!("{} was invoked after the successful {} had returned, but did not behave as on a closed channel", e.short(), ev[*w].short()), events: vec![i, *w] });
            }
        }
        // buffered values must be destroyed by the time close returns
        if h.unique {
            for (t, si) in &sent {
                if is_ok_send(&ev[*si].res) && !tk.contains_key(t) && ledger.dropped(*t) == 1 && ledger.drop_when(*t) > wt1 && ev[*si].t1 < ev[*w].t0 {
                    viol.push(Viol {
                        prop: "C10",
                        msg: format!("value {} (accepted by {}, never received) was destroyed at t={} which is after the successful {} returned: buffered values must be destroyed by the time close returns", t, ev[*si].short(), ledger.drop_when(*t), ev[*w].short()),
                        events: vec![*si, *w],
                    });
                }
            }
        }
    }

    // ---- C02 FIFO -------------------------------------------------------------------------
    if h.unique {
        // sends that succeeded and were taken: (accept time, invoke time, taker t0, taker t1, tag)
        let mut ds: Vec<(u64, u64, u64, u64, Tag, usize, usize)> = Vec::new();
        for (t, si) in &sent {
            if is_ok_send(&ev[*si].res) {
                if let Some((ri, pos)) = tk.get(t) {
                    // "accepted": returned, or already seen blocked/pending inside the channel (whichever was first)
                    let acc = ev[*si].reg_t.map_or(ev[*si].t1, |r| r.min(ev[*si].t1));
                    ds.push((acc, ev[*si].t0, ev[*ri].t0, ev[*ri].t1, *t, *ri, *pos));
                }
            }
        }
        let mut by_accept = ds.clone();
        by_accept.sort_by_key(|d| d.0);
        let mut by_invoke = ds.clone();
        by_invoke.sort_by_key(|d| d.1);
        let mut k = 0;
        // max taker.t0 over all sends accepted strictly before the current invoke; remember which
        let mut best: Option<(u64, Tag, usize)> = None;
        for b in &by_invoke {
            while k < by_accept.len() && by_accept[k].0 < b.1 {
                let a = &by_accept[k];
                if best.map_or(true, |x| a.2 > x.0) {
                    best = Some((a.2, a.4, a.5));
                }
                k += 1;
            }
            obs.fifo_pairs += k as u64;
            if let Some((a_t0, a_tag, a_ri)) = best {
                if b.3 < a_t0 {
                    viol.push(Viol {
                        prop: "C02",
                        msg: format!("send of {} was accepted before send of {} was invoked, yet {} obtained the later value and returned before {} (which obtained the earlier one) was invoked", a_tag, b.4, ev[b.5].short(), ev[a_ri].short()),
                        events: vec![sent[&a_tag], sent[&b.4], b.5, a_ri],
                    });
                }
            }
        }
        // inside one drain: positional order; inside one consumer thread: program order
        let mut by_taker: HashMap<usize, Vec<(usize, u64, u64, Tag)>> = HashMap::new();
        for d in &ds {
            by_taker.entry(d.5).or_default().push((d.6, d.0, d.1, d.4));
        }
        for (ri, v) in by_taker.iter_mut() {
            if v.len() < 2 {
                continue;
            }
            v.sort_by_key(|x| x.0);
            // max invoke time so far... a value at a later position whose send was ACCEPTED before an earlier-positioned value's send was INVOKED is out of order
            for i in 0..v.len() {
                for j in (i + 1)..v.len().min(i + 64) {
                    if v[j].1 < v[i].2 {
                        viol.push(Viol { prop: "C02", msg: format!("{}: value {} (accepted first) appears after value {} in one drain", ev[*ri].short(), v[j].3, v[i].3), events: vec![*ri] });
                    }
                }
            }
        }
    }

    // ---- C08 capacity ---------------------------------------------------------------------
    if let (Some(n), true) = (h.cap, h.unique) {
        let mut pts: Vec<(u64, i32)> = Vec::new();
        for (t, si) in &sent {
            if is_ok_send(&ev[*si].res) {
                pts.push((ev[*si].t1, 1));
                if let Some((ri, _)) = tk.get(t) {
                    pts.push((ev[*ri].t0, -1));
                }
            } else if matches!(ev[*si].res, Res::Cancelled(_)) {
                // fate open: only count its removal if delivered (more permissive)
            }
        }
        pts.sort();
        let mut cur = 0i64;
        let mut worst = 0i64;
        let mut at = 0u64;
        for (t, d) in pts {
            cur += d as i64;
            if cur > worst {
                worst = cur;
                at = t;
            }
        }
        obs.max_excess = obs.max_excess.max(worst);
        if worst > n as i64 {
            viol.push(Viol { prop: "C08", msg: format!("at t={} the number of sends that had reported success exceeded the number of values taken by receive operations already begun by {} on a channel of capacity {}", at, worst, n), events: vec![] });
        }
    }
    if h.cap.is_none() {
        for (i, e) in ev.iter().enumerate() {
            if e.op.is_send() && matches!(e.res, Res::False | Res::Timeout) && !matches!(e.op, Op::TrySendRt | Op::TrySendOptRt) {
                viol.push(Viol { prop: "C08", msg: format!("{}: an unbounded channel refused / timed out a send", e.short()), events: vec![i] });
            }
        }
    }
    for (i, e) in ev.iter().enumerate() {
        if let (Op::Len, Res::Num(l), Some(n)) = (&e.op, &e.res, h.cap) {
            if *l as usize > n {
                viol.push(Viol { prop: "C08", msg: format!("{}: reported length exceeds the capacity {}", e.short(), n), events: vec![i] });
            }
        }
    }

    // ---- handle timelines (C11, C12) ------------------------------------------------------
    // certainly alive: created (clone returned) and drop not yet invoked; possibly alive: clone invoked, drop not yet returned
    struct Line {
        cert: Vec<(u64, i32)>,
        cert_pre: Vec<i32>,
        poss: Vec<(u64, i32)>,
        poss_pre: Vec<i32>,
    }
    fn prefix(v: &[(u64, i32)], base: i32) -> Vec<i32> {
        let mut p = Vec::with_capacity(v.len() + 1);
        let mut c = base;
        p.push(c);
        for x in v {
            c += x.1;
            p.push(c);
        }
        p
    }
    /// extremum over tau in [a, b] of the step function
    fn range(v: &[(u64, i32)], pre: &[i32], a: u64, b: u64, want_min: bool) -> i32 {
        let start = v.partition_point(|p| p.0 <= a);
        let mut ext = pre[start];
        let mut k = start;
        while k < v.len() && v[k].0 <= b {
            k += 1;
            ext = if want_min { ext.min(pre[k]) } else { ext.max(pre[k]) };
        }
        ext
    }
    let mk = |clone_is: fn(&Op) -> bool, drop_is: fn(&Op) -> bool, base: u32| -> Line {
        let mut cert = vec![];
        let mut poss = vec![];
        for e in ev {
            if clone_is(&e.op) {
                // certainly alive only strictly after the clone returned; possibly alive from just before it was invoked
                cert.push((e.t1 + 1, 1));
                poss.push((e.t0.saturating_sub(1), 1));
            } else if drop_is(&e.op) {
                cert.push((e.t0.saturating_sub(1), -1));
                poss.push((e.t1 + 1, -1));
            }
        }
        cert.sort();
        poss.sort();
        let cert_pre = prefix(&cert, base as i32);
        let poss_pre = prefix(&poss, base as i32);
        Line { cert, cert_pre, poss, poss_pre }
    };
    let sline = mk(|o| matches!(o, Op::CloneS(_)), |o| matches!(o, Op::DropS), h.s0);
    let rline = mk(|o| matches!(o, Op::CloneR(_)), |o| matches!(o, Op::DropR), h.r0);
    let close_before = |t: u64| first_close_t0.map_or(false, |c| c <= t);
    for (i, e) in ev.iter().enumerate() {
        // errors that claim the opposite side is gone
        let (line, side) = match (&e.op, &e.res) {
            (o, Res::SendClosed) if o.is_recv() => (&sline, "send"),
            (Op::StreamNext, Res::NoneV) => (&sline, "send"),
            (o, Res::RecvClosed) if o.is_send() => (&rline, "receive"),
            (o, Res::Closed) if o.is_recv() && o.may_block() => (&sline, "send"),
            (o, Res::Closed) if o.is_send() && o.may_block() => (&rline, "receive"),
            _ => continue,
        };
        obs.disconnect_errors += 1;
        if close_before(e.t1) {
            continue;
        }
        if matches!(e.res, Res::Closed) && !e.op.may_block() {
            continue;
        }
        // the count is certainly >= min over the call interval of the certainly-alive handles
        let lo = range(&line.cert, &line.cert_pre, e.t0, e.t1, true);
        if lo > 0 {
            viol.push(Viol {
                prop: "C11",
                msg: format!("{} reported that the {} side is gone, but throughout the call at least {} {} handle(s) existed whose drop had not even been invoked, and no close() had been invoked", e.short(), side, lo, side),
                events: vec![i],
            });
        }
    }
    // after the last sender is gone every accepted value is still delivered, in order, before the disconnect error
    if closes.is_empty() && h.unique {
        let n_clone = ev.iter().filter(|e| matches!(e.op, Op::CloneS(_))).count() as u32;
        let drops: Vec<&Event> = ev.iter().filter(|e| e.op == Op::DropS).collect();
        if drops.len() as u32 == h.s0 + n_clone && h.s0 + n_clone > 0 {
            let t_gone = drops.iter().map(|e| e.t1).max().unwrap();
            // earliest-returning disconnect report among receives invoked after that
            let x = ev.iter().enumerate().filter(|(_, e)| e.t0 > t_gone && e.op.is_recv() && (e.res == Res::SendClosed || (e.op == Op::StreamNext && e.res == Res::NoneV))).min_by_key(|(_, e)| e.t1);
            if let Some((xi, x)) = x {
                for (t, si) in &sent {
                    if !is_ok_send(&ev[*si].res) {
                        continue;
                    }
                    match tk.get(t) {
                        None => {
                            // only a violation if a receiver could still have taken it: x itself proves a receiver existed
                            viol.push(Viol { prop: "C11", msg: format!("{} reported the send side disconnected although value {} (accepted by {}) was never delivered to anyone", x.short(), t, ev[*si].short()), events: vec![xi, *si] });
                        }
                        Some((ri, _)) => {
                            if ev[*ri].t0 > x.t1 {
                                viol.push(Viol { prop: "C11", msg: format!("{} reported the send side disconnected, but afterwards {} still obtained value {}: disconnect must be reported only after every accepted value", x.short(), ev[*ri].short(), t), events: vec![xi, *ri] });
                            }
                        }
                    }
                }
            }
        }
        let n_cloner = ev.iter().filter(|e| matches!(e.op, Op::CloneR(_))).count() as u32;
        let rdrops: Vec<&Event> = ev.iter().filter(|e| e.op == Op::DropR).collect();
        if rdrops.len() as u32 == h.r0 + n_cloner && h.r0 + n_cloner > 0 {
            let t_gone = rdrops.iter().map(|e| e.t1).max().unwrap();
            for (i, e) in ev.iter().enumerate() {
                if e.t0 > t_gone && e.op.is_send() && !matches!(e.op, Op::ASendDrop(0)) {
                    let rt = matches!(e.op, Op::TrySendRt | Op::TrySendOptRt);
                    if !(e.res == Res::RecvClosed || (rt && e.res == Res::False)) {
                        viol.push(Viol { prop: "C11", msg: format!("{} was invoked after the last receiver handle was gone but did not fail with 'receive closed'", e.short()), events: vec![i] });
                    }
                }
            }
        }
    }
    // C12: count reads within [certainly alive during the whole call, possibly alive during the call]
    for (i, e) in ev.iter().enumerate() {
        let (line, what) = match e.op {
            Op::SenderCount => (&sline, "sender_count"),
            Op::ReceiverCount => (&rline, "receiver_count"),
            _ => continue,
        };
        obs.count_reads += 1;
        if let Res::Num(v) = e.res {
            let v = v as i32;
            if close_before(e.t1) {
                let hi = range(&line.poss, &line.poss_pre, 0, e.t1, false);
                if v != 0 && v > hi {
                    viol.push(Viol { prop: "C12", msg: format!("{}: {}() exceeds the number of handles that can exist ({})", e.short(), what, hi), events: vec![i] });
                }
                continue;
            }
            let lo = range(&line.cert, &line.cert_pre, e.t0, e.t1, true);
            let hi = range(&line.poss, &line.poss_pre, e.t0, e.t1, false);
            if v < lo || v > hi {
                viol.push(Viol { prop: "C12", msg: format!("{}: {}() = {} but between {} and {} handles of that side were alive during the call", e.short(), what, v, lo, hi), events: vec![i] });
            }
        }
    }

    // ---- C13 timed ------------------------------------------------------------------------
    for (i, e) in ev.iter().enumerate() {
        if let Some(us) = e.op.timeout_us() {
            if e.res == Res::Timeout {
                obs.timeouts += 1;
                let slack = (e.t1 - e.t0) as i64 - us as i64 * 1000;
                obs.min_timeout_slack_ns = obs.min_timeout_slack_ns.min(slack);
                if slack < 0 {
                    viol.push(Viol { prop: "C13", msg: format!("{}: Timeout reported {} ns before the deadline of {} us had passed", e.short(), -slack, us), events: vec![i] });
                }
            } else if matches!(e.res, Res::Ok | Res::Val(_)) && (e.t1 - e.t0) > 20_000 {
                obs.timed_success_after_block += 1;
            }
        }
        if let Res::Drained(v) = &e.res {
            obs.drains += 1;
            obs.drained_values += v.len() as u64;
        }
    }
    viol
}

/// Fill in `Cancelled(Some(tag))` for receive futures that were dropped after a
/// sender had already written into them (ledger drop context == that op).
pub fn resolve_consumed(ev: &mut [Event], ledger: &Ledger) {
    let mut by_ctx: HashMap<u32, Tag> = HashMap::new();
    for e in ev.iter() {
        if let (true, Some(t)) = (e.op.is_send(), e.tag) {
            if ledger.dropped(t) > 0 {
                by_ctx.insert(ledger.drop_ctx(t), t);
            }
        }
    }
    for e in ev.iter_mut() {
        if matches!(e.op, Op::ARecvDrop(_)) && e.res == Res::Cancelled(None) {
            if let Some(t) = by_ctx.get(&e.opid()) {
                e.res = Res::Cancelled(Some(*t));
            }
        }
    }
}
