//! Counting wakers, a parking `block_on`, and flavour-erasing handle wrappers.
use kanal::{AsyncReceiver, AsyncSender, Receiver, Sender};
use std::future::Future;
use std::pin::Pin;
use std::sync::atomic::{AtomicU64, AtomicUsize, Ordering::Relaxed};
use std::sync::Arc;
use std::task::{Context, Poll, Wake, Waker};
use std::thread::Thread;

/// A waker that counts its invocations and (optionally) unparks a thread.
///
/// Two representations: the ordinary one (`Waker::from(Arc<WakeCell>)`: every cell has its own data pointer) and a
/// *family* of cells whose wakers share ONE data pointer and differ only in their vtable (a task control block that
/// is woken through the vtable of the run queue it currently sits on; `Waker::noop()`-like wakers with a null or
/// static data pointer). "Is this the same waker?" must look at both words.
pub struct WakeCell {
    pub id: u32,
    pub count: AtomicUsize,
    pub last: AtomicU64,
    pub thread: Option<Thread>,
    family: Option<(Arc<WakerFamily>, usize)>,
}
pub struct WakerFamily {
    count: [AtomicUsize; 4],
    last: [AtomicU64; 4],
}
impl Wake for WakeCell {
    fn wake(self: Arc<Self>) {
        self.wake_by_ref()
    }
    fn wake_by_ref(self: &Arc<Self>) {
        self.count.fetch_add(1, Relaxed);
        self.last.store(crate::payload::now(), Relaxed);
        if let Some(t) = &self.thread {
            t.unpark();
        }
    }
}
impl WakeCell {
    pub fn new(id: u32, thread: Option<Thread>) -> Arc<WakeCell> {
        Arc::new(WakeCell { id, count: AtomicUsize::new(0), last: AtomicU64::new(0), thread, family: None })
    }
    /// `n` (<= 4) cells whose wakers share their data pointer and differ in the vtable only
    pub fn family(first_id: u32, n: usize) -> Vec<Arc<WakeCell>> {
        assert!(n <= 4);
        let f = Arc::new(WakerFamily { count: Default::default(), last: Default::default() });
        (0..n).map(|k| Arc::new(WakeCell { id: first_id + k as u32, count: AtomicUsize::new(0), last: AtomicU64::new(0), thread: None, family: Some((f.clone(), k)) })).collect()
    }
    pub fn fired(&self) -> usize {
        match &self.family {
            Some((f, k)) => f.count[*k].load(Relaxed),
            None => self.count.load(Relaxed),
        }
    }
    pub fn last_fired(&self) -> u64 {
        match &self.family {
            Some((f, k)) => f.last[*k].load(Relaxed),
            None => self.last.load(Relaxed),
        }
    }
}
mod family_vtable {
    use super::*;
    use std::task::{RawWaker, RawWakerVTable};
    // four statics: one address per vtable (`Waker::will_wake` compares the vtable by address)
    static VTS: [RawWakerVTable; 4] = [
        RawWakerVTable::new(clone::<0>, wake::<0>, wake_by_ref::<0>, drop_w::<0>),
        RawWakerVTable::new(clone::<1>, wake::<1>, wake_by_ref::<1>, drop_w::<1>),
        RawWakerVTable::new(clone::<2>, wake::<2>, wake_by_ref::<2>, drop_w::<2>),
        RawWakerVTable::new(clone::<3>, wake::<3>, wake_by_ref::<3>, drop_w::<3>),
    ];
    unsafe fn clone<const K: usize>(p: *const ()) -> RawWaker {
        Arc::increment_strong_count(p as *const WakerFamily);
        RawWaker::new(p, &VTS[K])
    }
    unsafe fn wake<const K: usize>(p: *const ()) {
        wake_by_ref::<K>(p);
        drop_w::<K>(p);
    }
    unsafe fn wake_by_ref<const K: usize>(p: *const ()) {
        let f = &*(p as *const WakerFamily);
        f.count[K].fetch_add(1, Relaxed);
        f.last[K].store(crate::payload::now(), Relaxed);
    }
    unsafe fn drop_w<const K: usize>(p: *const ()) {
        // K keeps the four monomorphizations apart
        std::hint::black_box(K);
        Arc::decrement_strong_count(p as *const WakerFamily);
    }
    pub fn raw(f: &Arc<WakerFamily>, k: usize) -> RawWaker {
        let p = Arc::into_raw(f.clone()) as *const ();
        RawWaker::new(p, &VTS[k.min(3)])
    }
}
pub fn waker_of(c: &Arc<WakeCell>) -> Waker {
    match &c.family {
        Some((f, k)) => unsafe { Waker::from_raw(family_vtable::raw(f, *k)) },
        None => Waker::from(c.clone()),
    }
}

/// Polls `fut` to completion on the current thread, parking (without timeout:
/// a lost wake-up must show up as a stuck operation, not be papered over)
/// between polls. Returns the output and the number of polls.
pub fn block_on<F: Future>(mut fut: Pin<&mut F>) -> (F::Output, u32) {
    let cell = WakeCell::new(0, Some(std::thread::current()));
    let w = waker_of(&cell);
    let mut cx = Context::from_waker(&w);
    let mut polls = 0;
    let mut seen = 0;
    loop {
        polls += 1;
        if let Poll::Ready(v) = fut.as_mut().poll(&mut cx) {
            return (v, polls);
        }
        // Pending: the operation is registered inside the channel from here on
        crate::fp::reg_mark();
        // wait for a wake that happened after this poll started
        loop {
            let c = cell.fired();
            if c != seen {
                seen = c;
                break;
            }
            std::thread::park();
        }
    }
}

pub fn poll_once<F: Future>(fut: Pin<&mut F>, w: &Waker) -> Poll<F::Output> {
    let mut cx = Context::from_waker(w);
    fut.poll(&mut cx)
}

/// Sender handle of either flavour. Sync operations on an async handle go
/// through `as_sync()`, async ones on a sync handle through `as_async()`, so the
/// borrowed views are exercised constantly.
pub enum SH<T> {
    S(Sender<T>),
    A(AsyncSender<T>),
    /// the SAME handle used through a shared reference by another thread (`&Sender` is `Sync`: scoped threads often
    /// share one un-cloned handle). The pointee is kept alive by whoever handed the reference out; dropping a `B` does
    /// nothing and is not a handle event.
    B(*const SH<T>),
}
pub enum RH<T> {
    S(Receiver<T>),
    A(AsyncReceiver<T>),
    B(*const RH<T>),
}
// SAFETY: `B` is only created by `Scn::spawn_shared`, which keeps the pointee alive (boxed, never moved) until every
// thread using it has been joined; the handles themselves are Send + Sync for T: Send.
unsafe impl<T: Send> Send for SH<T> {}
unsafe impl<T: Send> Send for RH<T> {}
impl<T> SH<T> {
    pub fn is_borrowed(&self) -> bool {
        matches!(self, SH::B(_))
    }
    pub fn sy(&self) -> &Sender<T> {
        match self {
            SH::S(s) => s,
            SH::A(a) => a.as_sync(),
            SH::B(p) => unsafe { (**p).sy() },
        }
    }
    pub fn asy(&self) -> &AsyncSender<T> {
        match self {
            SH::S(s) => s.as_async(),
            SH::A(a) => a,
            SH::B(p) => unsafe { (**p).asy() },
        }
    }
    pub fn is_async(&self) -> bool {
        match self {
            SH::A(_) => true,
            SH::S(_) => false,
            SH::B(p) => unsafe { (**p).is_async() },
        }
    }
    /// clone into the requested flavour using the "native" method of this
    /// handle's flavour (clone / clone_sync / clone_async)
    pub fn clone_as(&self, want_async: bool) -> SH<T> {
        match (self, want_async) {
            (SH::S(s), false) => SH::S(s.clone()),
            (SH::S(s), true) => SH::A(s.clone_async()),
            (SH::A(a), false) => SH::S(a.clone_sync()),
            (SH::A(a), true) => SH::A(a.clone()),
            (SH::B(p), w) => unsafe { (**p).clone_as(w) },
        }
    }
    pub fn convert(self) -> SH<T> {
        match self {
            SH::S(s) => SH::A(s.to_async()),
            SH::A(a) => SH::S(a.to_sync()),
            SH::B(_) => panic!("harness: a shared (borrowed) handle cannot be converted"),
        }
    }
}
impl<T> RH<T> {
    pub fn is_borrowed(&self) -> bool {
        matches!(self, RH::B(_))
    }
    pub fn sy(&self) -> &Receiver<T> {
        match self {
            RH::S(s) => s,
            RH::A(a) => a.as_sync(),
            RH::B(p) => unsafe { (**p).sy() },
        }
    }
    pub fn asy(&self) -> &AsyncReceiver<T> {
        match self {
            RH::S(s) => s.as_async(),
            RH::A(a) => a,
            RH::B(p) => unsafe { (**p).asy() },
        }
    }
    pub fn is_async(&self) -> bool {
        match self {
            RH::A(_) => true,
            RH::S(_) => false,
            RH::B(p) => unsafe { (**p).is_async() },
        }
    }
    pub fn clone_as(&self, want_async: bool) -> RH<T> {
        match (self, want_async) {
            (RH::S(s), false) => RH::S(s.clone()),
            (RH::S(s), true) => RH::A(s.clone_async()),
            (RH::A(a), false) => RH::S(a.clone_sync()),
            (RH::A(a), true) => RH::A(a.clone()),
            (RH::B(p), w) => unsafe { (**p).clone_as(w) },
        }
    }
    pub fn convert(self) -> RH<T> {
        match self {
            RH::S(s) => RH::A(s.to_async()),
            RH::A(a) => RH::S(a.to_sync()),
            RH::B(_) => panic!("harness: a shared (borrowed) handle cannot be converted"),
        }
    }
}

/// Creates a channel through the sync or async constructor.
pub fn new_chan<T: Send + 'static>(cap: Option<usize>, async_ctor: bool) -> (SH<T>, RH<T>) {
    let (s, r) = new_chan_plain::<T>(cap, async_ctor);
    if crate::payload::drop_probe_wanted() {
        let p = match &s {
            SH::S(x) => x.verif_lock_probe(),
            SH::A(x) => x.verif_lock_probe(),
            SH::B(_) => unreachable!(),
        };
        crate::payload::set_drop_probe(Some(p));
    }
    (s, r)
}
fn new_chan_plain<T>(cap: Option<usize>, async_ctor: bool) -> (SH<T>, RH<T>) {
    match (cap, async_ctor) {
        (Some(n), false) => {
            let (s, r) = kanal::bounded::<T>(n);
            (SH::S(s), RH::S(r))
        }
        (Some(n), true) => {
            let (s, r) = kanal::bounded_async::<T>(n);
            (SH::A(s), RH::A(r))
        }
        (None, false) => {
            let (s, r) = kanal::unbounded::<T>();
            (SH::S(s), RH::S(r))
        }
        (None, true) => {
            let (s, r) = kanal::unbounded_async::<T>();
            (SH::A(s), RH::A(r))
        }
    }
}

pub fn cap_name(c: Option<usize>) -> String {
    match c {
        Some(n) => n.to_string(),
        None => "unbounded".to_string(),
    }
}
pub fn parse_cap(s: &str) -> Option<usize> {
    if s == "u" || s == "unbounded" {
        None
    } else {
        Some(s.parse().expect("capacity"))
    }
}
