//! Minimal JSON value + writer (no external crates are available offline for this).
use std::fmt::Write;
#[derive(Clone, Debug)]
pub enum J {
    Null,
    B(bool),
    I(i64),
    U(u64),
    F(f64),
    S(String),
    A(Vec<J>),
    O(Vec<(String, J)>),
}
impl J {
    pub fn s(x: impl Into<String>) -> J {
        J::S(x.into())
    }
    pub fn obj() -> J {
        J::O(Vec::new())
    }
    pub fn set(&mut self, k: &str, v: J) -> &mut J {
        if let J::O(m) = self {
            if let Some(e) = m.iter_mut().find(|e| e.0 == k) {
                e.1 = v;
            } else {
                m.push((k.to_string(), v));
            }
        }
        self
    }
    pub fn with(mut self, k: &str, v: J) -> J {
        self.set(k, v);
        self
    }
    pub fn write(&self, out: &mut String) {
        match self {
            J::Null => out.push_str("null"),
            J::B(b) => out.push_str(if *b { "true" } else { "false" }),
            J::I(i) => {
                let _ = write!(out, "{}", i);
            }
            J::U(u) => {
                let _ = write!(out, "{}", u);
            }
            J::F(f) => {
                if f.is_finite() {
                    let _ = write!(out, "{}", f);
                } else {
                    out.push_str("null")
                }
            }
            J::S(s) => esc(s, out),
            J::A(a) => {
                out.push('[');
                for (i, x) in a.iter().enumerate() {
                    if i > 0 {
                        out.push(',');
                    }
                    x.write(out);
                }
                out.push(']');
            }
            J::O(m) => {
                out.push('{');
                for (i, (k, v)) in m.iter().enumerate() {
                    if i > 0 {
                        out.push(',');
                    }
                    esc(k, out);
                    out.push(':');
                    v.write(out);
                }
                out.push('}');
            }
        }
    }
    pub fn to_string(&self) -> String {
        let mut s = String::new();
        self.write(&mut s);
        s
    }
}
fn esc(s: &str, out: &mut String) {
    out.push('"');
    for c in s.chars() {
        match c {
            '"' => out.push_str("\\\""),
            '\\' => out.push_str("\\\\"),
            '\n' => out.push_str("\\n"),
            '\r' => out.push_str("\\r"),
            '\t' => out.push_str("\\t"),
            c if (c as u32) < 0x20 => {
                let _ = write!(out, "\\u{:04x}", c as u32);
            }
            c => out.push(c),
        }
    }
    out.push('"');
}
impl From<u64> for J {
    fn from(v: u64) -> J {
        J::U(v)
    }
}
impl From<usize> for J {
    fn from(v: usize) -> J {
        J::U(v as u64)
    }
}
impl From<&str> for J {
    fn from(v: &str) -> J {
        J::S(v.to_string())
    }
}
impl From<String> for J {
    fn from(v: String) -> J {
        J::S(v)
    }
}
impl From<bool> for J {
    fn from(v: bool) -> J {
        J::B(v)
    }
}
