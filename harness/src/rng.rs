//! SplitMix64: the only PRNG used anywhere in the harness.
#[derive(Clone, Debug)]
pub struct Rng(pub u64);
impl Rng {
    pub fn new(seed: u64) -> Self {
        Rng(seed ^ 0x9E37_79B9_7F4A_7C15)
    }
    #[inline]
    pub fn next(&mut self) -> u64 {
        self.0 = self.0.wrapping_add(0x9E37_79B9_7F4A_7C15);
        let mut z = self.0;
        z = (z ^ (z >> 30)).wrapping_mul(0xBF58_476D_1CE4_E5B9);
        z = (z ^ (z >> 27)).wrapping_mul(0x94D0_49BB_1331_11EB);
        z ^ (z >> 31)
    }
    #[inline]
    pub fn below(&mut self, n: u64) -> u64 {
        if n == 0 {
            0
        } else {
            self.next() % n
        }
    }
    #[inline]
    pub fn chance(&mut self, num: u64, den: u64) -> bool {
        self.below(den) < num
    }
    pub fn fork(&mut self, salt: u64) -> Rng {
        Rng::new(self.next() ^ salt.wrapping_mul(0xD6E8_FEB8_6659_FD93))
    }
    pub fn pick<'a, T>(&mut self, v: &'a [T]) -> &'a T {
        &v[self.below(v.len() as u64) as usize]
    }
}
pub fn hash64(mut z: u64) -> u64 {
    z = (z ^ (z >> 30)).wrapping_mul(0xBF58_476D_1CE4_E5B9);
    z = (z ^ (z >> 27)).wrapping_mul(0x94D0_49BB_1331_11EB);
    z ^ (z >> 31)
}
pub fn hash_mix(h: u64, v: u64) -> u64 {
    hash64(h ^ v.wrapping_mul(0x9E37_79B9_7F4A_7C15).wrapping_add(0x1234_5678_9ABC_DEF1))
}
