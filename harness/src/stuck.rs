//! Stuck detector (C06 oracle and watchdog of every multi-threaded engine).
//!
//! A worker publishes, with Relaxed stores only, whether it is inside a
//! channel call that may block and how many calls it has completed.  The
//! joining thread declares the run *stuck* only if (a) every unfinished worker
//! is inside a may-block call and (b) no worker completed any call for the
//! whole grace period; it then samples the threads' kernel state/CPU time so
//! the report shows whether they are parked for good or spinning.  Running
//! out of the (much larger) wall-clock cap while progress is still being made
//! is *inconclusive*, never a violation.
use std::sync::atomic::{AtomicU64, Ordering::Relaxed};
use std::thread::JoinHandle;
use std::time::{Duration, Instant};

pub const MAX_SLOTS: usize = 64;
pub struct Slot {
    /// (completed << 34) | (opid << 2) | status
    state: AtomicU64,
    tid: AtomicU64,
}
const IDLE: u64 = 0;
const IN_NB: u64 = 1;
const IN_BLOCKING: u64 = 2;
const FINISHED: u64 = 3;
#[allow(clippy::declare_interior_mutable_const)]
const S0: Slot = Slot { state: AtomicU64::new(0), tid: AtomicU64::new(0) };
static SLOTS: [Slot; MAX_SLOTS] = [S0; MAX_SLOTS];

pub fn slot(i: usize) -> &'static Slot {
    &SLOTS[i]
}
pub fn reset_all() {
    for s in SLOTS.iter() {
        s.state.store(0, Relaxed);
        s.tid.store(0, Relaxed);
    }
}
fn my_tid() -> u64 {
    if cfg!(miri) {
        return 0;
    }
    std::fs::read_link("/proc/thread-self").ok().and_then(|p| p.file_name().and_then(|f| f.to_str().and_then(|s| s.parse().ok()))).unwrap_or(0)
}
impl Slot {
    pub fn begin_thread(&self) {
        self.tid.store(my_tid(), Relaxed);
        self.state.store(IDLE, Relaxed);
    }
    #[inline]
    pub fn enter(&self, may_block: bool, opid: u32) {
        let done = self.state.load(Relaxed) >> 34;
        self.state.store((done << 34) | ((opid as u64) << 2) | if may_block { IN_BLOCKING } else { IN_NB }, Relaxed);
    }
    #[inline]
    pub fn leave(&self) {
        let done = (self.state.load(Relaxed) >> 34) + 1;
        self.state.store((done << 34) | IDLE, Relaxed);
    }
    pub fn finish(&self) {
        let done = self.state.load(Relaxed) >> 34;
        self.state.store((done << 34) | FINISHED, Relaxed);
    }
    /// (completed calls, current op id, status: 0 idle, 1 in non-blocking call, 2 in may-block call, 3 finished)
    pub fn snapshot(&self) -> (u64, u32, u64) {
        self.read()
    }
    fn read(&self) -> (u64, u32, u64) {
        let v = self.state.load(Relaxed);
        (v >> 34, ((v >> 2) & 0xffff_ffff) as u32, v & 3)
    }
}

#[derive(Debug)]
pub enum JoinErr {
    /// (slot, opid, description of the thread's kernel state)
    Stuck(Vec<(usize, u32, String)>),
    Inconclusive(String),
    Panicked(usize, String),
}

fn proc_stat(tid: u64) -> Option<(char, u64)> {
    let s = std::fs::read_to_string(format!("/proc/self/task/{}/stat", tid)).ok()?;
    let r = s.rfind(')')?;
    let f: Vec<&str> = s[r + 2..].split(' ').collect();
    let st = f.first()?.chars().next()?;
    let ut: u64 = f.get(11)?.parse().ok()?;
    let stt: u64 = f.get(12)?.parse().ok()?;
    Some((st, ut + stt))
}

/// Joins workers `0..handles.len()` (worker i uses slot i).
pub fn join_all<R>(handles: Vec<JoinHandle<R>>, grace: Duration, cap: Duration) -> Result<Vec<R>, JoinErr> {
    let n = handles.len();
    let t0 = Instant::now();
    let mut last_progress = Instant::now();
    let mut last_sum = u64::MAX;
    let mut spins = 0u32;
    loop {
        if handles.iter().all(|h| h.is_finished()) {
            break;
        }
        spins += 1;
        if cfg!(miri) || spins < 200 {
            std::thread::yield_now();
        } else {
            std::thread::sleep(Duration::from_millis(2));
        }
        let mut sum = 0u64;
        let mut all_blocked = true;
        for (i, h) in handles.iter().enumerate() {
            let (done, _, st) = SLOTS[i].read();
            sum += done;
            if !h.is_finished() && st != FINISHED && st != IN_BLOCKING {
                all_blocked = false;
            }
            if h.is_finished() || st == FINISHED {
                sum += 1 << 20;
            }
        }
        if sum != last_sum {
            last_sum = sum;
            last_progress = Instant::now();
        }
        if all_blocked && last_progress.elapsed() > grace {
            // sample kernel state over one more second
            let mut rep = Vec::new();
            let mut first = Vec::new();
            for (i, h) in handles.iter().enumerate() {
                if !h.is_finished() {
                    first.push((i, proc_stat(SLOTS[i].tid.load(Relaxed))));
                }
            }
            if !cfg!(miri) {
                std::thread::sleep(Duration::from_millis(1000));
            }
            // re-check: any progress during the sample => not stuck
            let mut sum2 = 0u64;
            for (i, h) in handles.iter().enumerate() {
                let (done, _, st) = SLOTS[i].read();
                sum2 += done;
                if h.is_finished() || st == FINISHED {
                    sum2 += 1 << 20;
                }
            }
            if sum2 != last_sum {
                last_sum = sum2;
                last_progress = Instant::now();
                continue;
            }
            for (i, a) in first {
                let b = proc_stat(SLOTS[i].tid.load(Relaxed));
                let (_, opid, _) = SLOTS[i].read();
                let d = match (a, b) {
                    (Some((s1, c1)), Some((s2, c2))) => {
                        format!("kernel state {}->{} cpu ticks +{} over 1s ({})", s1, s2, c2 - c1, if c2 == c1 { "asleep: parked for good" } else { "running: spinning on a state nobody will change" })
                    }
                    _ => "no /proc sample".to_string(),
                };
                rep.push((i, opid, d));
            }
            return Err(JoinErr::Stuck(rep));
        }
        if t0.elapsed() > cap {
            return Err(JoinErr::Inconclusive(format!("wall-clock cap of {:?} reached while {} of {} workers unfinished (progress was still being made or workers were outside channel calls)", cap, handles.iter().filter(|h| !h.is_finished()).count(), n)));
        }
    }
    let mut out = Vec::with_capacity(n);
    for (i, h) in handles.into_iter().enumerate() {
        match h.join() {
            Ok(r) => out.push(r),
            Err(e) => {
                let msg = e.downcast_ref::<String>().cloned().or_else(|| e.downcast_ref::<&str>().map(|s| s.to_string())).unwrap_or_default();
                return Err(JoinErr::Panicked(i, msg));
            }
        }
    }
    Ok(out)
}
