//! `RefChan`: the straightforward queue-plus-waiting-list reference channel.
//! Deterministic; every method is one atomic step of the ideal channel.
//! A step of one operation may complete *other* (blocked) operations; those
//! completions are appended to `done`.
use std::collections::VecDeque;

pub type OpId = u32;
pub type Tag = u64;

#[derive(Clone, Copy, Debug, PartialEq, Eq, Hash)]
pub enum Completion {
    /// blocked sender: its value was taken
    Sent,
    /// blocked receiver: it got this value
    Got(Tag),
    /// blocked operation released with an error (close / last opposite handle dropped)
    Terminated,
}

#[derive(Clone, Copy, Debug, PartialEq, Eq, Hash)]
pub enum SendOut {
    Done,
    Blocked,
    Full,
    Closed,
    RecvClosed,
}
#[derive(Clone, Copy, Debug, PartialEq, Eq, Hash)]
pub enum RecvOut {
    Got(Tag),
    Blocked,
    Empty,
    Closed,
    SendClosed,
}

#[derive(Clone, Debug, PartialEq, Eq, Hash)]
pub struct RefChan {
    pub cap: usize,
    pub q: VecDeque<Tag>,
    pub ws: VecDeque<(OpId, Tag)>,
    pub wr: VecDeque<OpId>,
    pub sc: u32,
    pub rc: u32,
}

impl RefChan {
    pub fn new(cap: Option<usize>) -> Self {
        RefChan { cap: cap.unwrap_or(usize::MAX), q: VecDeque::new(), ws: VecDeque::new(), wr: VecDeque::new(), sc: 1, rc: 1 }
    }
    pub fn closed(&self) -> bool {
        self.sc == 0 && self.rc == 0
    }
    fn terminate_all(&mut self, done: &mut Vec<(OpId, Completion)>) {
        for (id, _) in self.ws.drain(..) {
            done.push((id, Completion::Terminated));
        }
        for id in self.wr.drain(..) {
            done.push((id, Completion::Terminated));
        }
    }
    /// `block`: register in the waiting list when it cannot complete (blocking
    /// / timed / async send); otherwise report `Full` (try_ variants).
    pub fn send(&mut self, id: OpId, tag: Tag, block: bool, done: &mut Vec<(OpId, Completion)>) -> SendOut {
        if self.rc == 0 {
            return if self.sc == 0 { SendOut::Closed } else { SendOut::RecvClosed };
        }
        if let Some(r) = self.wr.pop_front() {
            done.push((r, Completion::Got(tag)));
            SendOut::Done
        } else if self.q.len() < self.cap {
            self.q.push_back(tag);
            SendOut::Done
        } else if block {
            self.ws.push_back((id, tag));
            SendOut::Blocked
        } else {
            SendOut::Full
        }
    }
    pub fn recv(&mut self, id: OpId, block: bool, done: &mut Vec<(OpId, Completion)>) -> RecvOut {
        if self.rc == 0 {
            return RecvOut::Closed;
        }
        if let Some(v) = self.q.pop_front() {
            if let Some((s, t)) = self.ws.pop_front() {
                self.q.push_back(t);
                done.push((s, Completion::Sent));
            }
            RecvOut::Got(v)
        } else if let Some((s, t)) = self.ws.pop_front() {
            done.push((s, Completion::Sent));
            RecvOut::Got(t)
        } else if self.sc == 0 {
            RecvOut::SendClosed
        } else if block {
            self.wr.push_back(id);
            RecvOut::Blocked
        } else {
            RecvOut::Empty
        }
    }
    /// `None` = closed error
    pub fn drain(&mut self, done: &mut Vec<(OpId, Completion)>) -> Option<Vec<Tag>> {
        if self.rc == 0 {
            return None;
        }
        let mut v: Vec<Tag> = self.q.drain(..).collect();
        for (s, t) in self.ws.drain(..) {
            v.push(t);
            done.push((s, Completion::Sent));
        }
        Some(v)
    }
    /// Ok(destroyed buffered tags) or Err(()) if already closed
    pub fn close(&mut self, done: &mut Vec<(OpId, Completion)>) -> Result<Vec<Tag>, ()> {
        if self.closed() {
            return Err(());
        }
        self.sc = 0;
        self.rc = 0;
        self.terminate_all(done);
        Ok(self.q.drain(..).collect())
    }
    pub fn clone_sender(&mut self) {
        if self.sc > 0 {
            self.sc += 1;
        }
    }
    pub fn clone_receiver(&mut self) {
        if self.rc > 0 {
            self.rc += 1;
        }
    }
    pub fn drop_sender(&mut self, done: &mut Vec<(OpId, Completion)>) {
        if self.sc > 0 {
            self.sc -= 1;
            if self.sc == 0 && self.rc != 0 {
                self.terminate_all(done);
            }
        }
    }
    pub fn drop_receiver(&mut self, done: &mut Vec<(OpId, Completion)>) {
        if self.rc > 0 {
            self.rc -= 1;
            if self.rc == 0 && self.sc != 0 {
                self.terminate_all(done);
            }
        }
    }
    /// timeout expiry / future drop of a blocked sender: true iff it was still listed
    pub fn cancel_send(&mut self, id: OpId) -> bool {
        if let Some(i) = self.ws.iter().position(|e| e.0 == id) {
            self.ws.remove(i);
            true
        } else {
            false
        }
    }
    pub fn cancel_recv(&mut self, id: OpId) -> bool {
        if let Some(i) = self.wr.iter().position(|e| *e == id) {
            self.wr.remove(i);
            true
        } else {
            false
        }
    }
    // observers
    pub fn len(&self) -> usize {
        self.q.len()
    }
    pub fn is_empty(&self) -> bool {
        self.q.is_empty()
    }
    pub fn is_full(&self) -> bool {
        self.cap == self.q.len()
    }
    pub fn capacity(&self) -> usize {
        self.cap
    }
    pub fn is_bounded(&self) -> bool {
        self.cap != usize::MAX
    }
    /// as seen from a sender handle
    pub fn s_is_disconnected(&self) -> bool {
        self.rc == 0
    }
    /// as seen from a receiver handle
    pub fn r_is_disconnected(&self) -> bool {
        self.sc == 0
    }
    pub fn is_terminated(&self) -> bool {
        self.sc == 0 && self.q.is_empty()
    }
    /// a compact fingerprint of the logical state (for "distinct states" evidence)
    pub fn fingerprint(&self) -> u64 {
        use crate::rng::hash_mix;
        let mut h = hash_mix(self.cap as u64, self.q.len() as u64);
        h = hash_mix(h, self.ws.len() as u64);
        h = hash_mix(h, self.wr.len() as u64);
        h = hash_mix(h, self.sc.min(3) as u64);
        h = hash_mix(h, self.rc.min(3) as u64);
        h
    }
}
